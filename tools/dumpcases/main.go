// dumpcases materialises the file-compare cases (=DEVICE=/=NETSPOC= without
// =SCENARIO=) of the repository's test data into directories.
package main

import (
	"encoding/json"
	"fmt"
	"os"
	"path"
	"path/filepath"
	"regexp"
	"strings"

	"github.com/hknutzen/testtxt"
)

type descr struct {
	Title     string
	Device    string
	Scenario  string
	Netspoc   string
	Options   string
	Params    string
	Setup     string
	Output    string
	Warning   string
	Error     string
	DoApprove bool
	Todo      bool
}

type meta struct {
	Id      string
	File    string
	Title   string
	Model   string
	Dir     string
	Args    []string
	Output  string
	Warning string
	Error   string
	Scenario string `json:",omitempty"`
	Netspoc string
	Device  string
}

func prepareInDir(inDir, single, input string) {
	if input == "NONE" {
		input = ""
	}
	re := regexp.MustCompile(`(?ms)^-+[ ]*\S+[ ]*\n`)
	il := re.FindAllStringIndex(input, -1)
	write := func(file, data string) {
		os.MkdirAll(path.Dir(file), 0755)
		os.WriteFile(file, []byte(data), 0644)
	}
	if il == nil {
		write(path.Join(inDir, single), input)
		return
	}
	for i, p := range il {
		marker := input[p[0] : p[1]-1]
		pName := strings.Trim(marker, "- ")
		start := p[1]
		end := len(input)
		if i+1 < len(il) {
			end = il[i+1][0]
		}
		write(path.Join(inDir, pName), input[start:end])
	}
}

func main() {
	src, out := os.Args[1], os.Args[2]
	withScenario := len(os.Args) > 3 && os.Args[3] == "all"
	files, _ := filepath.Glob(src + "/*.t")
	var all []meta
	for _, file := range files {
		base := path.Base(file)
		prefix, _, _ := strings.Cut(strings.TrimSuffix(base, ".t"), "_")
		prefix = strings.ToUpper(prefix)
		if prefix == "LINUX" {
			prefix = "Linux"
		}
		var l []descr
		if err := testtxt.ParseFile(file, &l); err != nil {
			fmt.Fprintln(os.Stderr, file, err)
			continue
		}
		for i, d := range l {
			if d.Todo || d.Setup != "" || d.Netspoc == "" {
				continue
			}
			if d.Scenario != "" && !withScenario {
				continue
			}
			id := fmt.Sprintf("%s/%03d", strings.TrimSuffix(base, ".t"), i)
			dir := path.Join(out, id)
			os.MkdirAll(dir, 0755)
			codeDir := path.Join(dir, "code")
			prepareInDir(codeDir, "router", d.Netspoc)
			infoFile := path.Join(codeDir, "router.info")
			info6File := path.Join(codeDir, "ipv6", "router.info")
			if _, err := os.Stat(infoFile); err != nil {
				if _, err := os.Stat(info6File); err != nil {
					info := fmt.Sprintf("\n{\n \"model\": \"%s\",\n \"name_list\": [ \"router\" ],\n \"ip_list\": [ \"10.1.13.33\" ]\n}\n", prefix)
					os.WriteFile(infoFile, []byte(info), 0644)
				}
			}
			os.WriteFile(path.Join(dir, "device"), []byte(d.Device), 0644)
			args := []string{"drc", "-q"}
			if d.Options != "" {
				args = append(args, strings.Fields(d.Options)...)
			}
			args = append(args, "device", "code/router")
			all = append(all, meta{Id: id, File: base, Title: d.Title, Model: prefix, Dir: dir, Args: args,
				Output: d.Output, Warning: d.Warning, Error: d.Error, Scenario: d.Scenario, Netspoc: d.Netspoc, Device: d.Device})
		}
	}
	data, _ := json.MarshalIndent(all, "", " ")
	os.WriteFile(path.Join(out, "cases.json"), data, 0644)
	fmt.Printf("%d cases\n", len(all))
}
