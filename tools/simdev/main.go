// simdev plays a vfsim scenario (JSON file) on stdin/stdout; used as
// SIMULATE_ROUTER command for native replay of dialogue counterexamples.
package main

import (
	"syscall"
	"bufio"
	"encoding/json"
	"os"
	"time"
)

func main() {
	data, err := os.ReadFile(os.Args[1])
	if err != nil {
		panic(err)
	}
	sc := &Scenario{}
	if err := json.Unmarshal(data, sc); err != nil {
		panic(err)
	}
	d := NewDevice(sc)
	if sc.LockFile != "" {
		d.Probe = func() bool { return tryLock(sc.LockFile) }
	}
	d.Start()
	flush := func() {
		os.Stdout.WriteString(d.Buf)
		d.Buf = ""
	}
	flush()
	var trace *os.File
	if len(os.Args) > 2 {
		trace, _ = os.OpenFile(os.Args[2], os.O_CREATE|os.O_WRONLY|os.O_APPEND, 0644)
	}
	in := bufio.NewReader(os.Stdin)
	for {
		line, err := in.ReadString('\n')
		if err != nil {
			return
		}
		if trace != nil {
			trace.WriteString(line)
		}
		d.Send(line)
		if d.LockFree && trace != nil {
			trace.WriteString("<<LOCK-FREE>>\n")
			d.LockFree = false
		}
		flush()
		if d.Dead {
			time.Sleep(50 * time.Millisecond)
			return
		}
	}
}

func tryLock(p string) bool {
	fh, err := os.OpenFile(p, os.O_CREATE|os.O_RDONLY, 0644)
	if err != nil {
		return true
	}
	defer fh.Close()
	if err := syscall.Flock(int(fh.Fd()), syscall.LOCK_EX|syscall.LOCK_NB); err != nil {
		return false
	}
	syscall.Flock(int(fh.Fd()), syscall.LOCK_UN)
	return true
}
