// simdev plays a vfsim scenario (JSON file) on stdin/stdout; used as
// SIMULATE_ROUTER command for native replay of dialogue counterexamples.
package main

import (
	"bufio"
	"encoding/json"
	"os"
	"time"
)

func main() {
	data, err := os.ReadFile(os.Args[1])
	if err != nil {
		panic(err)
	}
	sc := &Scenario{}
	if err := json.Unmarshal(data, sc); err != nil {
		panic(err)
	}
	d := NewDevice(sc)
	d.Start()
	flush := func() {
		os.Stdout.WriteString(d.Buf)
		d.Buf = ""
	}
	flush()
	var trace *os.File
	if len(os.Args) > 2 {
		trace, _ = os.OpenFile(os.Args[2], os.O_CREATE|os.O_WRONLY|os.O_APPEND, 0644)
	}
	in := bufio.NewReader(os.Stdin)
	for {
		line, err := in.ReadString('\n')
		if err != nil {
			return
		}
		if trace != nil {
			trace.WriteString(line)
		}
		d.Send(line)
		flush()
		if d.Dead {
			time.Sleep(50 * time.Millisecond)
			return
		}
	}
}
