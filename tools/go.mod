module veriftools

go 1.23.1

require (
	github.com/hknutzen/Netspoc-Approve/go v0.0.0
	github.com/hknutzen/testtxt v0.0.0-20240408182449-0168fe18ebfb
)

require gopkg.in/yaml.v3 v3.0.1 // indirect

replace github.com/hknutzen/Netspoc-Approve/go => /repo/go
