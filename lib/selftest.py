#!/usr/bin/env python3
"""Differential self-test of the gosx engine: every file-compare case of the
repository's test data is pushed through the natively compiled drc and through
the interpreted drc.Main; stdout, stderr and exit status must agree.  The
oracle is the native binary built from the current tree (not the expected
text), so this stays valid on a modified tree."""
import json, os, subprocess, sys, tempfile, shutil, concurrent.futures, re

ENV = dict(os.environ, GOFLAGS="-mod=mod", GOPROXY="off", GOSUMDB="off", GOTOOLCHAIN="local")
REPO = os.environ.get("VERIF_REPO", "/repo") + "/go"
ENTRY = "github.com/hknutzen/Netspoc-Approve/go/pkg/drc.VerifMain"

def run(scratch, only=None, verbose=False):
    cases_dir = os.path.join(scratch, "cases")
    subprocess.run(["/verif/bin/dumpcases", REPO + "/testdata", cases_dir], check=True, stdout=subprocess.DEVNULL)
    drc = os.path.join(scratch, "drc")
    subprocess.run(["go", "build", "-o", drc, "./cmd/drc"], cwd=REPO, env=ENV, check=True)
    cases = json.load(open(os.path.join(cases_dir, "cases.json")))
    # the 10000-line ACL case is outside the interpreter's step budget
    cases = [c for c in cases if not c["Id"].startswith("ios_long-acl")]
    if only:
        cases = [c for c in cases if re.search(only, c["Id"])]
    if not cases:
        return {"error": "self-test pattern %r selects no case" % only, "cases": 0, "mismatch": []}
    def native(c):
        d = c["Dir"]
        args = [drc] + c["Args"][1:-2] + [d + "/device", d + "/code/router"]
        env = dict(os.environ)
        env.pop("LANG", None)
        try:
            p = subprocess.run(args, cwd=d, capture_output=True, text=True, timeout=60, env=env)
            return p.returncode, p.stdout, p.stderr
        except subprocess.TimeoutExpired:
            return -1, "", "timeout"
    with concurrent.futures.ThreadPoolExecutor(16) as ex:
        nat = list(ex.map(native, cases))
    batch = []
    for c in cases:
        d = c["Dir"]
        batch.append({"Id": c["Id"], "Entry": ENTRY,
                      "Args": c["Args"][:-2] + [d + "/device", d + "/code/router"],
                      "Params": {}, "Real": [d]})
    bf = os.path.join(scratch, "batch.json")
    json.dump(batch, open(bf, "w"))
    out = os.path.join(scratch, "batch-out.json")
    p = subprocess.run(["/verif/bin/gosx", "-repo", REPO, "-batch", bf, "-out", out, "-maxsteps", "200000000"], capture_output=True, text=True, env=ENV)
    if p.returncode != 0 or not os.path.exists(out):
        return {"error": "engine batch failed: " + p.stdout + p.stderr, "cases": len(cases), "mismatch": []}
    res = json.load(open(out))
    mism = []
    agree = 0
    for c, n, r in zip(cases, nat, res):
        rc, so, se = n
        R = r["Result"]
        s = (R.get("Samples") or [None])[0]
        if s is None:
            why = "engine: no completed path; unsupported=%s inconclusive=%s" % (R.get("Unsupported"), R.get("Inconclusive"))
            mism.append({"id": c["Id"], "title": c["Title"], "why": why})
            continue
        erc = None
        for nline in s.get("Notes") or []:
            m = re.match(r"exit=\s*(-?\d+)", nline)
            if m: erc = int(m.group(1))
            m = re.match(r"os.Exit\((\d+)\)", nline)
            if m: erc = int(m.group(1))
        if s["End"] == "panic":
            erc = 2
        eso, ese = s.get("Stdout", ""), s.get("Stderr", "")
        if rc == 2:
            # native crashed: compare only the fact and the first line of the message
            ok = erc == 2
            se_cmp = ese_cmp = ""
        else:
            ok = (erc == rc)
            se_cmp, ese_cmp = se, ese
        if ok and so == eso and se_cmp == ese_cmp:
            agree += 1
        else:
            mism.append({"id": c["Id"], "title": c["Title"], "native": [rc, so[:400], se[:400]], "engine": [erc, eso[:400], ese[:400], s["End"], s.get("Panic")],
                         "unsupported": R.get("Unsupported")})
    return {"cases": len(cases), "agree": agree, "mismatch": mism}

if __name__ == "__main__":
    scratch = tempfile.mkdtemp(prefix="vselftest-")
    try:
        r = run(scratch, sys.argv[1] if len(sys.argv) > 1 else None)
        print(json.dumps({k: v for k, v in r.items() if k != "mismatch"}))
        for m in r["mismatch"]:
            print(json.dumps(m)[:1500])
    finally:
        shutil.rmtree(scratch, ignore_errors=True)
