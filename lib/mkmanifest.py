#!/usr/bin/env python3
"""Regenerates /verif/MANIFEST.json from lib/props.py."""
import json, sys
sys.path.insert(0, "/verif/lib")
import props
ids = [json.loads(l)["id"] for l in open("/verif/properties.jsonl")]
NA = {
 "C19": "mechanism is bash (bin/newpolicy.sh, bin/newpolicy) driving git/flock/mv/ln; no symbolic-execution engine for bash exists in the image and the Go SSA executor cannot see the script; a hand-written model would check the model, not the code",
}
NA.update(getattr(props, "NOT_APPLICABLE", {}))
m = {
 "version": 1,
 "setup_cmd": "bash /verif/setup.sh",
 "hooks": {"guard": "verif", "enable": "no source hooks: harnesses are injected into the repository's packages with the go/packages and 'go test -overlay' mechanisms (files /verif/harness/** overlaid onto /repo/go/**)",
           "baseline_off_cmd": "cd /repo/go && GOFLAGS=-mod=mod GOPROXY=off go test -vet=off -count=1 -timeout 25m ./...",
           "source_commits": getattr(props, "SOURCE_COMMITS", []), "add_only": True},
 "engines": [{"name": "gosx", "path": "/verif/engine", "serves_properties": sorted(props.PROPS),
              "kind_free_text": "own symbolic executor for Go SSA (golang.org/x/tools v0.29.0 go/ssa built from /repo's working tree on every run): finite-domain table symbols + bit-vector terms, path-wise exploration by re-execution, z3 -in decides every branch feasibility and every assertion; counterexamples replayed natively with go test -overlay"}],
 "checks": [],
 "not_applicable": [],
 "notes": "All claimed checks are bounded: 'held' means unsat for every assertion on every feasible path within the bounds written to the evidence file; exit 3 = inconclusive (never reported as held).",
}
for i in ids:
    if i in props.PROPS:
        c = props.PROPS[i]
        m["checks"].append({
            "property_id": i,
            "quick_cmd": "./check %s --tier quick" % i,
            "thorough_cmd": "./check %s --tier thorough" % i,
            "evidence_file": "/verif/evidence/%s.json" % i,
            "replay_cmd_template": "cat {path}",
            "engine": "gosx",
            "level_claimed": {"category": "other", "text": c["level_text"] if "level_text" in c else c["explanation"], "design_ref": c.get("design_ref", "DESIGN.md section 5 " + i)},
            "level_note": c.get("level_note", "Trusted: go/ssa construction, the executor and its native intrinsics for the standard library (validated per run by the differential self-test against the native binary and by native replay of every counterexample), z3, the environment stubs and harness assumptions listed in the evidence file. Bounded: nothing is claimed outside the bounds in the evidence."),
            "technique": c.get("technique", "bounded symbolic execution of the real Go code (SSA) with SMT-decided assertions (z3), native replay of counterexamples"),
        })
    else:
        m["not_applicable"].append({"property_id": i, "reason": NA.get(i, "check not built yet")})
json.dump(m, open("/verif/MANIFEST.json", "w"), indent=1)
print("claimed:", [c["property_id"] for c in m["checks"]])
