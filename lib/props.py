"""Per-property configuration of the checks (entries, bounds, mandatory
situations).  Bounds registered here are the ones that ran clean on the
unchanged tree."""
M = "github.com/hknutzen/Netspoc-Approve/go"

PROPS = {}

PROPS["C13"] = {
    "explanation": "Bounded symbolic execution (gosx, own Go SSA executor + z3) of status.SetApprove/SetCompare/Read/write and missing-approve check/readFile on a virtual file system: all histories of K events over 9 event kinds with a strictly increasing symbolic 64-bit clock and symbolic code identities; after every event the listing is compared with a ghost 'latest conclusive observation'. Every assertion is an SMT query over all inputs of the path; counterexamples are replayed against the natively compiled code.",
    "bounds": {"quick": "K=4 events, 9 event kinds, 3 code identities (v4 code only); K=3 with ipv6 and raw components present/absent",
               "thorough": "K=5 events (v4 code only); K=4 with ipv6 and raw components"},
    "outside": "histories longer than K; equal time stamps; valid JSON with forged values; more than 3 code identities; missing-approve.Main directory walk (check() is entered directly)",
    "selftest": None,
    "runs": [
        {"entry": M + "/cmd/missing-approve.VerifHistory",
         "quick": {"K": "4"}, "thorough": {"K": "5"},
         "covers": ["event: approve ok", "event: approve failed", "event: compare uptodate", "event: compare diff",
                    "event: bzip2 old policy", "event: remove old policy", "event: status damaged", "event: manual drift",
                    "event: new policy same code", "event: new policy other code"]},
        {"entry": M + "/cmd/missing-approve.VerifHistory",
         "quick": {"K": "3", "parts": "1"}, "thorough": {"K": "4", "parts": "1"}},
    ],
}

IOS_ACL = M + "/pkg/ios.VerifIOSACL"
_cisco_level = "Bounded symbolic execution (gosx) of the real cisco.(*State).GetChanges -> alignVRFs, checkInterfaces, diffConfig, diffCmds, makeEqual, diffIOSACLs/diffASAACLs, markIOSPermitDenyBlocks, addCmds, delCmds, deleteUnused, myers.Diff on device/target configurations whose ACL lines are solver-chosen from a menu parsed by the real parser; the emitted script is executed on a device model, the result is compared with the target for a symbolic packet class and fed to the real GetChanges again."

PROPS["C02"] = {
    "explanation": _cisco_level + " C02: final ACL filters like the target for every packet class, second compare silent, 'no change' only for an equivalent device.",
    "bounds": {"quick": "IOS: 1 interface, 1 ACL, device lines n<=3, target lines 1<=m<=3, menu of 7 lines without remark (all patterns of insert/delete/move/log change); n,m<=2 with menu of 8 incl. remark; device ACL name with/without -DRC- suffix; 8 packet classes",
               "thorough": "n,m<=3 with menu of 12 lines (log, log-input, tcp eq 80/www, remark); n,m<=4 with menu of 6"},
    "outside": "sizes above the bounds; line kinds outside the menu; several interfaces/VRFs sharing ACLs, crypto filter ACLs and routes (routes: see C05/C14 route harness); IOS-XE sequence numbers on the device side; real device behaviour beyond the model's rules",
    "selftest": "ios_(acl|parse)", "selftest_thorough": "ios_|asa_",
    "runs": [
        {"entry": IOS_ACL, "quick": {"N": "3", "K": "7"}, "thorough": {"N": "3", "K": "12"},
         "covers": ["move emitted (joined delete+add)", "no change reported", "changes emitted", "pure inserts and deletes around common lines"]},
        {"entry": IOS_ACL, "quick": {"N": "2", "K": "8", "flags": "name+xe"}, "thorough": {"N": "4", "K": "6"}},
        # long same-action runs: device <=3 lines, target <=5 lines from 4 permit + 2 deny lines (thorough only)
        {"entry": IOS_ACL, "quick": {"N": "2", "NB": "3", "menu": "B"}, "thorough": {"N": "3", "NB": "5", "menu": "B"}},
    ],
}
PROPS["C14"] = dict(PROPS["C02"], explanation=_cisco_level + " C14: after every executed step of the script the verdict of a symbolic packet class on which old and new ACL agree equals that verdict (one SMT query per step).")
PROPS["C08"] = dict(PROPS["C02"], explanation=_cisco_level + " C08: every reject rule of the device model (unknown ACL, used sequence number, duplicate entry modulo log, missing entry on delete, sub-command outside its mode, exit at top level) is an assertion at each script position.")
PROPS["C10"] = {
    "explanation": _cisco_level + " C10: the script is cut after a symbolic number k of steps, the model state is converted back into a device configuration, the real GetChanges runs again and its script is executed; end state must filter like the target and a third compare must be silent.",
    "bounds": {"quick": "IOS ACL: n<=2, 1<=m<=2, menu of 8 incl. remark, every cut position including the cut between the two halves of a joined replacement line, device with and without IOS-XE sequence numbers (left-over 10000-step numbering visible to the resumed run); ASA ACL n,m<=2; NSX one rule with 1 or 2 group ids; PAN-OS one rule; ASA / IOS / Linux routes n,m<=2", "thorough": "NSX two rules with two group ids (single-address groups); n,m<=3, menu of 7"},
    "outside": "as C02; more than one cut; cuts of the object-graph harnesses (VPN objects, crypto maps); ASA: more than two interface ACLs",
    "selftest": "ios_acl",
    "runs": [{"entry": IOS_ACL, "quick": {"N": "2", "K": "8", "cut": "1", "flags": "xe"}, "thorough": {"N": "3", "K": "7", "cut": "1", "flags": "name+xe"}, "covers": ["resumed after cut", "cut between the halves of a replacement", "device shows sequence numbers"]}],
}

PROPS["C18"] = {
    "explanation": "Bounded symbolic execution (gosx) of the real cisco.(*Config).MergeSpoc -> mergeCmds, mergeRefs, mergeASAACLs / mergeIOSACLs on three parts (IPv4, IPv6, raw with [APPEND] split) whose ACL lines are solver-chosen; the merged ACL is compared entry by entry (pointer identity of the parts' commands) with the order rules of the statement: every entry exactly once, order inside each part preserved, unmarked raw entries before all Netspoc entries, APPEND entries behind the last Netspoc permit and in front of the trailing Netspoc deny run; an aborted merge must print ERROR>>>. Linux: linux.(*config).MergeSpoc on chains parsed by the real parser (rules in front, [APPEND] rules, solver-chosen ACCEPT/DROP targets, routes); PAN-OS: (*PanConfig).MergeSpoc / processVsysPairs (raw rules with and without <APPEND/>, Netspoc part with or without vsys); NSX: (*NsxConfig).MergeSpoc (same or other policy id).",
    "bounds": {"quick": "ASA and IOS, one ACL, each part 0..3 lines from a menu of 7 (permit/deny, any6 deny, tcp), every [APPEND] split position; Linux/PAN-OS/NSX: each part 0..2 rules",
               "thorough": "each part 0..4 lines (Linux 0..3)"},
    "outside": "object-groups and crypto/tunnel objects in raw files; name clashes; more than one ACL / chain / vsys; Linux tables other than one chain of filter; for PAN-OS the position of <APPEND/> rules is checked as behind all Netspoc rules (the pinned behaviour; Netspoc rulebases for PAN-OS carry no trailing drop rule); NSX has no APPEND marker (order follows sequence numbers)",
    "selftest": "(asa|ios)_raw", "selftest_thorough": "_raw|asa_ipv6",
    "runs": [
        {"entry": M + "/pkg/asa.VerifMergeACL", "quick": {"N": "3"}, "thorough": {"N": "4"},
         "covers": ["APPEND entry merged", "Netspoc ACL without permit line", "raw part with [APPEND] section"]},
        {"entry": M + "/pkg/ios.VerifMergeACL", "quick": {"N": "3"}, "thorough": {"N": "4"},
         "covers": ["APPEND entry merged", "Netspoc ACL without permit line", "raw part with [APPEND] section"]},
        {"entry": M + "/pkg/linux.VerifMergeLinux", "quick": {"N": "2"}, "thorough": {"N": "3"},
         "covers": ["two raw rules in front", "two [APPEND] rules", "Netspoc chain ends with DROP rules"]},
        {"entry": M + "/pkg/panos.VerifMergePAN", "quick": {"N": "2"}, "thorough": {"N": "4"},
         "covers": ["two raw rules in front", "rule with APPEND"]},
        {"entry": M + "/pkg/nsx.VerifMergeNSX", "quick": {"N": "2"}, "thorough": {"N": "4"},
         "covers": ["rules joined into one policy", "policy of raw part added", "raw part with two policy objects of the same id"]},
    ],
}

PROPS["C20"] = {
    "explanation": "Bounded symbolic execution (gosx) of the real device.CompareFiles -> getRealDevice, loadSpoc, ParseConfig (cisco: lookupCmd, matchCmd, postprocessParsed, postprocessACLParts, checkReferences; linux: parseIPTables, parseRoutes), MergeSpoc and GetChanges on the repository's own test configurations in which one line is replaced by a solver-chosen member of the property's mutation family (word-prefix truncations, single-token deletions, duplications, swaps, indentation changes). Any Go run-time panic that is not errlog's bailout, and any exit status other than 0/1, is a violation; each is replayed natively. Empty / garbage files for all five device types in all four argument positions (device.VerifGarbageFile); structurally damaged but syntactically valid NSX JSON and PAN-OS XML (null elements, empty lists, missing containers, self-referencing groups; 22 + 19 variants; device.VerifGarbageStruct; unbounded recursion is reported as a crash at call depth 5000). Info file: device.CompareFiles / ApproveOrCompare with <code>.info (v4, ipv6 or both) replaced by one of 22 damaged variants (codefiles.LoadInfoFile, getRealDevice); status file: missing-approve check and status.SetCompare / SetApprove on 19 damaged variants.",
    "bounds": {"quick": "ASA, IOS, Linux (files of at most 60 lines), NSX and PAN-OS (at most 120 lines, one representative per distinct line text) file-compare cases of go/testdata: one representative line per kind (model, argument position, indentation, first three words, word count), up to 63 mutations per line, both argument positions (device file, Netspoc code, raw, ipv6)",
               "thorough": "every (case, file, line) triple"},
    "outside": "mutations inside a JSON / XML token (the family is word based), info and status file contents beyond the two families of 22 / 19 damaged variants, do-approve and missing-approve front ends, hangs (step budget only), mutations of more than one line at a time",
    "selftest": "asa_raw|ios_raw|linux_raw|nsx", "selftest_thorough": "asa_|ios_|linux|nsx|pan-os",
    "runs": [
        {"entry": M + "/pkg/device.VerifMutateLine", "needs_cases": True,
         "quick": {"dedupe": "1", "stride": "1"}, "thorough": {"stride": "1"},
         "extra": {"maxpaths": 2000000},
         "covers": ["input rejected with exit status 1", "input accepted", "targets selected"]},
        {"entry": M + "/pkg/device.VerifGarbageFile", "covers": ["input rejected with exit status 1", "input accepted"]},
        {"entry": M + "/pkg/device.VerifGarbageStruct", "extra": {"maxsteps": 20000000}, "covers": ["input rejected with exit status 1", "input accepted"]},
        {"entry": M + "/pkg/device.VerifGarbageInfo", "covers": ["input rejected with exit status 1", "input accepted"]},
        {"entry": M + "/cmd/missing-approve.VerifGarbageStatus", "covers": ["missing-approve check on damaged status", "status operation survived"]},
    ],
}

PROPS["C05"] = {
    "explanation": "Bounded symbolic execution (gosx) of the real linux.parseRoutes, diffRoutes, (*State).parseIPTables, normalizeIPTables, diffIPTables, getIPTablesConfig. Routes: all pairs of route sets over 4 destinations x 3 hops in the device's and Netspoc's spellings; the emitted add/del commands are executed on a route-set model; end state must be exactly the target, no add of an active / del of an inactive route, second compare silent. iptables: abstract rules (solver-chosen fields) are rendered in Netspoc spelling and in iptables-save spelling with solver-chosen spelling variants; 'unchanged' must be reported exactly for equal abstract rulesets, the restore file must equal the target, the target must compare equal to its own kernel spelling.",
    "bounds": {"quick": "routes: n,m<=2 per side; iptables: one table, chain INPUT, <=1 rule per side",
               "thorough": "routes as quick (n,m<=3 ran clean once in about 100 minutes, 1.55 million paths, before the destination menu was changed to nested networks; it is not registered because it was not re-run); iptables as quick (two rules per side did not finish within two hours, with or without the SYN match, and is not registered)"},
    "outside": "IPv6 tables, several tables/chains with different contents, spellings outside the menus (xmark/mark, log-level), 'ip route' attributes other than via/dev, ApplyCommands dialogue (see C09)",
    "selftest": "linux", "selftest_thorough": "linux",
    "runs": [
        {"entry": M + "/pkg/linux.VerifRoutes", "quick": {"N": "2"}, "thorough": {"N": "2"},
         "classes": ["C05"], "covers": ["replace in one transaction", "kernel/link-scope route on device", "no change reported"]},
        {"entry": M + "/pkg/linux.VerifIPTables", "quick": {"N": "1"}, "thorough": {"N": "1"}, "extra": {"maxpaths": 5000000},
         "covers": ["iptables reported as unchanged", "iptables difference reported"]},
    ],
}
PROPS["C14"]["runs"] = PROPS["C14"]["runs"] + [
    {"entry": M + "/pkg/linux.VerifRoutes", "quick": {"N": "2"}, "thorough": {"N": "2"}, "classes": ["C14"]},
]
PROPS["C14"]["bounds"] = {"quick": PROPS["C02"]["bounds"]["quick"] + "; Linux routes n,m<=2", "thorough": PROPS["C02"]["bounds"]["thorough"] + "; Linux routes n,m<=2"}

ASA_ACL = M + "/pkg/asa.VerifASAACL"
ASA_GRAPH = M + "/pkg/asa.VerifASAGraph"
_graph_run = {"entry": ASA_GRAPH, "quick": {"full": "0"}, "thorough": {"full": "1"}, "extra": {"maxpaths": 2000000}}
RT_ASA = {"entry": M + "/pkg/asa.VerifRoutesASA", "quick": {"N": "2"}, "thorough": {"N": "3"}, "extra": {"maxpaths": 3000000}, "covers": ["replace in one transaction", "no change reported"]}
RT_IOS = {"entry": M + "/pkg/ios.VerifRoutesIOS", "quick": {"N": "2"}, "thorough": {"N": "2"}, "extra": {"maxpaths": 3000000}, "covers": ["replace in one transaction", "no change reported"]}
_rt_text = " Routes (asa.VerifRoutesASA / ios.VerifRoutesIOS): device and target route sets are solver-chosen (2 IPv4 destinations x 3 hops; IOS global table and VRF v1 with several routes per destination, ASA one IPv6 destination), parsed by the real parser, planned by the real GetChanges / diffCmds / diffRoutes, executed on a routing table model; managed VRFs / address families must equal the target, unmanaged ones stay untouched, every destination routed before and after stays routed at every step, second compare silent."
IOS_GRAPH_SHARED = {"entry": M + "/pkg/ios.VerifIOSGraph", "params": {"part": "shared"}, "covers": ["one device ACL bound at two interfaces"]}
IOS_GRAPH_VRF = {"entry": M + "/pkg/ios.VerifIOSGraph", "params": {"part": "vrf"}, "covers": ["interfaces of a VRF unknown to Netspoc on device", "two interfaces in the unmanaged VRF"]}
IOS_GRAPH = {"entry": M + "/pkg/ios.VerifIOSGraph", "params": {"part": "crypto"}, "extra": {"maxpaths": 1000000}, "covers": ["crypto map on device", "crypto map in target", "crypto map with a gap in its sequence numbers", "unknown interface checked", "unknown interface with crypto map of two entries", "changes emitted", "no change reported"]}
_iosg_text = " IOS object graph (ios.VerifIOSGraph): interface with inbound ACL, interface with a crypto map of 0..2 entries per side keyed by peer (optional inbound filter ACL in two variants, device sequence numbers with or without a gap), optional interface unknown to Netspoc with its own ACL (name with or without -DRC-) or a crypto map of two entries with filter ACLs; part shared: one device ACL bound at two interfaces while the target gives the second interface no ACL / the old content / another content; part vrf: 1..2 interfaces with generated-name ACLs in a VRF the target does not use beside a managed VRF; parsed by the real parser, planned by the real GetChanges (diffCmds, matchCryptoMap, diffCryptoMap, checkIOSInterfaces, deleteUnused), executed on a text-level IOS store (modes, numbered ACL edits, bindings); interfaces must expand to the target's content, unknown interfaces and everything they reference stay byte-identical, second compare silent."
_graph_dmz = {"entry": ASA_GRAPH, "params": {"part": "dmz"}, "covers": ["interface unknown to Netspoc on device", "unknown interface is shut down", "unknown interface with in and out access-group"]}
_graph_crypto = {"entry": ASA_GRAPH, "params": {"part": "crypto"}, "extra": {"maxpaths": 1000000}, "covers": ["crypto map on device", "crypto map on target", "crypto map entry with two transform-sets"]}
_graph_cert = {"entry": ASA_GRAPH, "params": {"part": "cert"}, "covers": ["certificate map binding on device", "certificate map binding in target"]}
_graph_text = " ASA VPN object graph (asa.VerifASAGraph): device and target assembled from solver-selected blocks (VPN user -> group-policy of two commands -> vpn-filter ACL of 2..3 lines and address pool; left-over generated group-policy chain; manually created ldap attribute-map + aaa-server, group-policy and tunnel-group referencing generated or manual objects; part dmz: an interface unknown to Netspoc, shut down or not, with inbound and optional outbound access-group, ACL names with/without -DRC-, manual object-group; part cert: certificate map + tunnel-group bound by tunnel-group-map with changed subject-name / trust-point; part crypto: crypto map bound to an interface with 0..2 entries per side keyed by peer, match address ACL, list of 1..2 transform-sets whose definition may change, optional pfs), parsed by the real parser, planned by the real GetChanges (diffConfig, addCmds, delCmds, deleteUnused, markDeleted), executed on a text-level ASA store that enforces referential integrity and sub-mode rules; anchors must expand to the same name-free content as the target, objects outside Netspoc's scope must stay byte-identical, second compare silent."
NSX = M + "/pkg/nsx.VerifNSX"

PROPS["C01"] = {
    "explanation": _cisco_level + " C01 (ASA): interface ACL with plain lines and lines referencing network object-groups (solver-chosen members), device groups with generated names, left-over generated group, unmanaged group; the script is executed on an ASA model ('line N' inserts/deletes, joined moves, object-group member edits, transfers with fresh -DRC- names, rebinding of access-group, clear configure); final ACL must filter like the target with groups expanded, second compare silent, 'no change' only for an equivalent device.",
    "bounds": {"quick": "ASA: 1 interface ACL, device lines n<=2, target lines 1<=m<=2, 6 plain lines + permit/deny lines referencing 1 object-group per side with 1..2 members of 3 hosts, left-over generated group, unmanaged group, 8 packet classes; two single-member groups per side with a menu of 4 lines",
               "thorough": "as quick with 2 object-groups per side (group reuse, identical groups, split groups); n,m<=3 with 1 group"},
    "outside": "dynamic crypto maps, ikev2 proposals, webvpn anchors, VPN objects beyond the one user chain of the graph harness, service/protocol object-groups, several ACLs and interfaces, IPv6, sizes above the bounds, real device behaviour beyond the model's rules",
    "selftest": "asa_(acl|parse)", "selftest_thorough": "asa_",
    "runs": [
        {"entry": ASA_ACL, "quick": {"N": "2", "K": "6", "G": "1"}, "thorough": {"N": "2", "K": "6", "G": "2"},
         "extra": {"maxpaths": 3000000},
         "covers": ["move emitted (joined delete+add)", "object-group membership edited", "changes emitted", "no change reported"]},
        {"entry": ASA_ACL, "quick": {"N": "1", "K": "8", "G": "1"}, "thorough": {"N": "3", "K": "6", "G": "1"}, "extra": {"maxpaths": 3000000}},
        {"entry": ASA_ACL, "quick": {"N": "2", "K": "4", "G": "2", "members": "1"}, "thorough": {"N": "2", "K": "4", "G": "2", "members": "1"}, "extra": {"maxpaths": 3000000}},
        {"entry": ASA_ACL, "quick": {"N": "1", "K": "2", "G": "1", "members": "2", "acl2": "1"}, "thorough": {"N": "1", "K": "2", "G": "2", "members": "2", "acl2": "1"}, "extra": {"maxpaths": 3000000}, "covers": ["second interface ACL on device", "second interface ACL on target"]},
        dict(_graph_run, covers=["managed VPN user on device", "VPN user in target", "changes emitted", "no change reported"]),
        _graph_cert, _graph_dmz, _graph_crypto, RT_ASA,
    ],
}
PROPS["C01"]["explanation"] += _graph_text + _rt_text
PROPS["C04"] = {
    "explanation": "Bounded symbolic execution (gosx) of the real nsx.diffConfig -> sortGroups, addNewServices, genUniqGroupNames, diffPolicies, genUniqRuleNames, sortRules, (rulesPair).Equal/diffRules (myers.Diff), adaptGroup, findGroupOnDevice, equalizeGroups, writeRule, removeUnusedServices/Groups on NsxConfig structures with solver-chosen rule fields and group address lists; JSON bodies are kept structurally (Blob) by the json stub; the REST calls are executed on a model of the manager; resulting rules must equal the target's with groups compared by address set, no left-over Netspoc service/group, second compare silent.",
    "bounds": {"quick": "1 policy, n,m<=2 rules per side (action, source literal or group), 1 group id per side with 1..2 of 4 addresses, service changed in place, unused Netspoc group on device, one sequence number; two group ids per side with single-address groups",
               "thorough": "2 group ids per side (renamed/shared/duplicated groups), 2 sequence numbers"},
    "outside": "several policies, destination groups, services per rule other than one shared reference, sizes above the bounds, HTTP layer (see C09), JSON text level",
    "selftest": "nsx", "selftest_thorough": "nsx",
    "runs": [
        {"entry": NSX, "quick": {"N": "2", "G": "1", "seqs": "1"}, "thorough": {"N": "2", "G": "2", "seqs": "1"}, "extra": {"maxpaths": 5000000},
         "covers": ["incremental group edit", "changes emitted", "no change reported"]},
        {"entry": NSX, "quick": {"N": "1", "G": "1", "seqs": "2"}, "thorough": {"N": "2", "G": "1", "seqs": "2"}},
        {"entry": NSX, "quick": {"N": "2", "G": "2", "members": "1", "seqs": "1"}, "thorough": {"N": "2", "G": "2", "members": "1", "seqs": "2"}, "extra": {"maxpaths": 5000000}},
    ],
}
PROPS["C07"] = {
    "explanation": "Frame assertions inside the ASA and NSX converge harnesses (bounded symbolic execution of the real GetChanges / diffConfig): an object-group whose name lacks the generated-name tag and that no managed object references must survive the script textually unchanged and no emitted command may name it (ASA); no emitted REST call may address an id without the Netspoc prefix (NSX).",
    "bounds": {"quick": "as C01 quick (ASA, unmanaged object-group present/absent), C04 quick (NSX URLs), ASA object graph with up to 3 manually created referrers (about 28 000 block combinations)", "thorough": "as C01/C04 thorough; object graph with banner variants (about 55 000 combinations)"},
    "outside": "IOS VRFs other than in the route harness, gdoi crypto maps, unmanaged objects referenced from managed ones, PAN-OS objects outside the vsys at LoadDevice level",
    "selftest": "asa_parse", 
    "runs": [
        {"entry": ASA_ACL, "quick": {"N": "2", "K": "6", "G": "1"}, "thorough": {"N": "2", "K": "6", "G": "2"}, "extra": {"maxpaths": 3000000}},
        {"entry": NSX, "quick": {"N": "2", "G": "1", "seqs": "1"}, "thorough": {"N": "2", "G": "2", "seqs": "1"}, "extra": {"maxpaths": 5000000}},
        {"entry": M + "/pkg/device.VerifDialogueNSX", "params": {"mode": "approve"}, "covers": ["approve succeeded"]},
        dict(_graph_run, covers=["protected object checked", "unmanaged ldap attribute-map on device", "unmanaged tunnel-group on device", "unmanaged group-policy on device", "left-over generated group-policy on device"]),
        _graph_dmz, _graph_cert, dict(RT_ASA, covers=["routes of a VRF or address family without target routes"]), dict(RT_IOS, covers=["routes of a VRF or address family without target routes"]), IOS_GRAPH, IOS_GRAPH_SHARED, IOS_GRAPH_VRF,
    ],
}
PROPS["C07"]["explanation"] += _graph_text + _rt_text + _iosg_text
for _p in ("C08", "C14"):
    PROPS[_p]["runs"] = PROPS[_p]["runs"] + [
        {"entry": ASA_ACL, "quick": {"N": "2", "K": "6", "G": "1"}, "thorough": {"N": "2", "K": "6", "G": "2"}, "extra": {"maxpaths": 3000000}}]
PROPS["C08"]["runs"] = PROPS["C08"]["runs"] + [_graph_run, _graph_dmz, _graph_cert, _graph_crypto, RT_ASA, RT_IOS, IOS_GRAPH, IOS_GRAPH_SHARED, IOS_GRAPH_VRF]
PROPS["C08"]["explanation"] += _iosg_text
PROPS["C14"]["runs"] = PROPS["C14"]["runs"] + [RT_ASA, RT_IOS]
PROPS["C02"]["runs"] = PROPS["C02"]["runs"] + [RT_IOS, IOS_GRAPH, IOS_GRAPH_SHARED, IOS_GRAPH_VRF]
PROPS["C02"]["explanation"] += _iosg_text
for _p in ("C02", "C08", "C14"):
    PROPS[_p]["explanation"] += _rt_text
PROPS["C08"]["explanation"] += _graph_text
PROPS["C08"]["runs"] = PROPS["C08"]["runs"] + [
    {"entry": NSX, "quick": {"N": "2", "G": "1", "seqs": "1"}, "thorough": {"N": "2", "G": "2", "seqs": "1"}, "extra": {"maxpaths": 5000000}}]
PROPS["C10"]["runs"] = PROPS["C10"]["runs"] + [
    {"entry": ASA_ACL, "quick": {"N": "2", "K": "4", "G": "1", "cut": "1"}, "thorough": {"N": "2", "K": "6", "G": "1", "cut": "1"}, "extra": {"maxpaths": 3000000}, "covers": ["resumed after cut"]},
    {"entry": NSX, "quick": {"N": "1", "G": "1", "seqs": "1", "cut": "1"}, "thorough": {"N": "2", "G": "1", "seqs": "1", "cut": "1"}, "extra": {"maxpaths": 5000000}, "covers": ["resumed after cut"]},
    {"entry": NSX, "quick": {"N": "1", "G": "2", "members": "1", "seqs": "1", "cut": "1"}, "thorough": {"N": "2", "G": "2", "members": "1", "seqs": "1", "cut": "1"}, "extra": {"maxpaths": 5000000}, "covers": ["resumed after cut"]},
    {"entry": ASA_ACL, "quick": {"N": "1", "K": "1", "G": "1", "members": "2", "acl2": "1", "cut": "1"}, "thorough": {"N": "1", "K": "1", "G": "2", "members": "2", "acl2": "1", "cut": "1"}, "extra": {"maxpaths": 3000000}, "covers": ["resumed after cut", "second interface ACL on device", "second interface ACL on target"]},
    dict(RT_ASA, params={"cut": "1"}, covers=["resumed after cut"]),
    dict(RT_IOS, params={"cut": "1"}, covers=["resumed after cut"]),
    {"entry": M + "/pkg/linux.VerifRoutes", "quick": {"N": "2", "cut": "1"}, "thorough": {"N": "2", "cut": "1"}, "extra": {"maxpaths": 3000000}, "covers": ["resumed after cut"]},
]

DEV = M + "/pkg/device."
DOAPP = M + "/pkg/doapprove."
_dlg_level = "Bounded symbolic execution (gosx) of the real device.ApproveOrCompare -> getRealDevice, loadDevice, (asa|ios|linux).LoadDevice, cisco.LoginEnable/checkBanner, checkDeviceName, console.* (GetSSHConn, Send, expectLog, StripEcho, ...), getCompare, approve/compare, ApplyCommands, cmd, isValidOutput, writeMem, errlog.Abort/HandleAbort against a line-oriented device simulator (harness Go code, itself symbolically executed) reached through stubs of the goexpect library; fault kind and dialogue position are solver variables. Counterexamples are replayed natively: the real binary code talks to the same simulator running as an external process behind a real pty and the real goexpect."
PROPS["C09"] = {
    "explanation": _dlg_level + " C09: after a device-side failure (error text, unexpected output, garbled echo, no answer, connection closed, unconfirmed write memory, non-zero exit status on Linux) at any position, no further change command and no save is sent, exit status != 0, ERROR>>> printed; do-approve level: status file FAILED/DIFF, history END: FAILED; OK only if all commands were sent and the save confirmed.",
    "bounds": {"quick": "ASA, IOS, Linux: one fixed change script each (3-6 commands incl. joined replacement), one fault of 8 (Linux 5) kinds at every dialogue position; PAN-OS: one change script (2 config commands + commit + job poll), one fault (HTTP status 500, API status error, malformed XML, transport error, job FAIL) at every request; NSX: one change script (6 requests) with one fault (status 500/400/403, invalid JSON, transport error) at every request incl. login and paged listing; do-approve.Main approve and compare on ASA", "thorough": "same (the fault space is exhausted)"},
    "outside": "two or more faults, chunked arrival / timing of device output, local file system faults, other change scripts",
    "selftest": "asa_acl|ios_acl|linux_route|drc",
    "runs": [
        {"entry": DEV + "VerifDialogueASA", "params": {"mode": "approve"}, "covers": ["failure injected", "approve succeeded", "fault reached"]},
        {"entry": DEV + "VerifDialogueIOS", "params": {"mode": "approve"}, "covers": ["failure injected", "approve succeeded"]},
        {"entry": DEV + "VerifDialogueLinux", "params": {"mode": "approve"}, "covers": ["failure injected", "fault reached"]},
        {"entry": DEV + "VerifDialoguePAN", "params": {"mode": "approve"}, "covers": ["failure injected", "approve succeeded", "fault reached"]},
        {"entry": DEV + "VerifDialogueNSX", "params": {"mode": "approve"}, "covers": ["failure injected", "approve succeeded", "fault reached"]},
        {"entry": DOAPP + "VerifDoApprove", "params": {"action": "approve"}, "covers": ["failure injected", "OK recorded"]},
        {"entry": DOAPP + "VerifDoApprove", "params": {"action": "compare"}, "covers": ["failure injected"]},
    ],
}
PROPS["C11"] = {
    "explanation": _dlg_level + " C11: in compare mode (device.ApproveOrCompare isCompare, doapprove.Main compare) no line of the computed change script, no 'write memory', no reload command is ever sent, whatever fault is injected at whatever position; the only configuration-mode sequence is the ASA terminal width triple.",
    "bounds": {"quick": "ASA, IOS, Linux, PAN-OS, NSX with a non-empty difference; one fault of 8 (5) kinds at every position; do-approve compare on ASA", "thorough": "same"},
    "outside": "drc -C flag parsing (drc.Main is covered by the C12 harness), interlock outcomes other than faults",
    "selftest": "asa_acl|ios_acl|drc",
    "runs": [
        {"entry": DEV + "VerifDialogueASA", "params": {"mode": "compare"}, "covers": ["compare run checked"]},
        {"entry": DEV + "VerifDialogueIOS", "params": {"mode": "compare"}, "covers": ["compare run checked"]},
        {"entry": DEV + "VerifDialogueLinux", "params": {"mode": "compare"}, "covers": ["compare run checked"]},
        {"entry": DEV + "VerifDialoguePAN", "params": {"mode": "compare"}, "covers": ["compare run checked"]},
        {"entry": DEV + "VerifDialogueNSX", "params": {"mode": "compare"}, "covers": ["compare run checked"]},
        {"entry": DOAPP + "VerifDoApprove", "params": {"action": "compare"}, "covers": ["compare run checked"]},
    ],
}
PROPS["C06"] = {
    "explanation": _dlg_level + " C06: reported hostname (expected / other / expected with suffix), marker (login banner on ASA/IOS, /etc/issue on Linux) present or absent and 'checkbanner' configured or not are solver-chosen; for a wrong or unmanaged device no change command, no configuration mode (except the ASA terminal-width triple), no reload and no save may appear in the transcript and the run must fail with ERROR>>>; without configured banner text approve must work normally.",
    "bounds": {"quick": "ASA, IOS, Linux at device.ApproveOrCompare level: 3 (2) hostnames x marker x checkbanner; PAN-OS: hostname x vsys display-name marker x HA state (active/passive/standalone)", "thorough": "same"},
    "outside": "NSX (has no such check); approve via drc.Main / do-approve (covered for ASA by C12/C09 harnesses only with a managed device)",
    "selftest": "asa_acl|ios_acl|linux_route|drc",
    "runs": [
        {"entry": DEV + "VerifUnmanagedASA", "covers": ["wrong or unmanaged device", "managed device", "banner check not configured"]},
        {"entry": DEV + "VerifUnmanagedIOS", "covers": ["wrong or unmanaged device", "managed device", "banner check not configured"]},
        {"entry": DEV + "VerifUnmanagedLinux", "covers": ["wrong or unmanaged device", "managed device", "banner check not configured"]},
        {"entry": DEV + "VerifUnmanagedPAN", "covers": ["wrong, unmanaged or passive device", "managed device"]},
    ],
}
PROPS["C15"] = {
    "explanation": _dlg_level + " C15: ios.ApplyCommands, prepareDevice, scheduleReload, sendReloadCmd, cmd, stripReloadBanner, extendReload, cancelReload, writeMem with one asynchronous reload banner (2:00 / 1:00, with or without fresh prompt) inserted at a solver-chosen byte offset of the echo of a solver-chosen change command: every change command lies between 'reload in' and 'reload cancel', write memory behind the cancel, no reload pending at the end, 1:00 warning re-armed before the next change command, outcome identical to the banner-free run.",
    "bounds": {"quick": "one change script of 5 lines (two inserts, one joined replacement, one delete), one banner per run, all offsets 0..45, 4 banner forms", "thorough": "same plus the fault dialogue of C09 on IOS"},
    "outside": "more than one banner per run, banner forms not in the repository's scenario, banner with prompt in the middle of an echo, chunked arrival, 'reload in' asking no question, write memory variants (NVRAM confirm, open failed)",
    "selftest": "ios_acl|ios_raw",
    "runs": [
        {"entry": DEV + "VerifBannerIOS", "covers": ["one-minute warning shown", "two-minute banner shown"]},
        {"entry": DEV + "VerifDialogueIOS", "params": {"mode": "approve"}, "classes": ["C15"]},
    ],
}
PROPS["C17"] = {
    "explanation": _dlg_level + " C17: the login password (with characters that need URL escaping) is searched in every sink: session logs .login/.config/.change/.cmp, run log, history, status file, stdout, stderr, for success and for every fault kind/position (assertions inside the C06/C09/C11 harnesses).",
    "bounds": {"quick": "ASA, IOS, Linux SSH dialogues incl. do-approve on ASA; all fault kinds/positions of C09; PAN-OS: API key (with + / = characters) and password in every sink for every HTTP fault kind/position; NSX: password and session token likewise", "thorough": "same"},
    "outside": "passwords entered interactively; secrets in files the tool does not write",
    "selftest": "asa_acl|pan-os",
    "runs": [
        {"entry": DEV + "VerifDialogueASA", "params": {"mode": "approve"}},
        {"entry": DEV + "VerifDialogueIOS", "params": {"mode": "approve"}},
        {"entry": DEV + "VerifDialogueLinux", "params": {"mode": "approve"}},
        {"entry": DEV + "VerifUnmanagedASA"},
        {"entry": DEV + "VerifDialoguePAN", "params": {"mode": "approve"}},
        {"entry": DEV + "VerifDialoguePAN", "params": {"mode": "compare"}},
        {"entry": DEV + "VerifDialogueNSX", "params": {"mode": "approve"}},
        {"entry": DEV + "VerifDialogueNSX", "params": {"mode": "compare"}},
        {"entry": DOAPP + "VerifDoApprove", "params": {"action": "approve"}},
        {"entry": DOAPP + "VerifDoApprove", "params": {"action": "compare"}},
    ],
}
PROPS["C12"] = {
    "explanation": "Reduced claim. Bounded symbolic execution (gosx) of the real doapprove.Main and drc.Main (pflag parsing, program.LoadConfig, device.SetLock with syscall.Flock stubbed, openHistoryLog, ApproveOrCompare, status.Set*) for both verbs, three spellings of the device (name, absolute and relative path, ipv6 path), every fault kind/position of the C09 dialogue and a solver-chosen lock state: a contender (lock held) must print 'Approve in progress', exit 1 and leave device, status, history and logs untouched; a holder must hold basedir/lock/<device> whenever the device receives a line (probe from the simulator) and release it at the end. Natively replayed with a really held flock.",
    "level_note": "OS-level interleavings, kill points and the kernel's release-on-exit are NOT explored; they follow from the trusted flock contract (exclusive per open file description, released on close/exit/kill) together with the decided facts that every access is dominated by a successful LOCK_EX|LOCK_NB on the same file for every spelling and that a failed lock attempt touches nothing.",
    "bounds": {"quick": "2 front ends x 2 verbs x 3 spellings x lock held/free x 8 fault kinds x all positions", "thorough": "same"},
    "outside": "real concurrency of processes, crash points, NFS or other file systems where flock differs, devices other than ASA",
    "selftest": "drc|asa_acl",
    "runs": [{"entry": DOAPP + "VerifLock", "covers": ["contender while the device is held", "holder"]}],
}

PAN = M + "/pkg/panos.VerifPAN"
PROPS["C03"] = {
    "explanation": "Bounded symbolic execution (gosx) of the real panos.diffConfig -> sortMembers, rulesPairFrom, markObjects, genUniqRuleNames, genUniqGroupNames, diffRules (myers.Diff with (rulesPair).Equal, objectsTypeEq, servicesEq), equalize, hasEqualizedLists/Groups, findGroupOnDevice, adaptGroups, transferNeededObjects, removeUnneededObjects, printXMLValue/printXML (executed; xml.Marshal is the stub) on panVsys structures with solver-chosen rule actions, source lists and address-group members; the emitted XML-API commands (set, edit, delete, move) are executed on a model of the candidate configuration; the resulting rulebase must equal the target's rule by rule in order with sources compared by expanded content; second compare silent; no change only for an equivalent vsys.",
    "bounds": {"quick": "1 vsys, n,m<=2 rules per side (action, source = 1 address of 3 or an address-group), 1 group name per side with 1..2 members, unused group on device, service port changed in place",
               "thorough": "source lists of 1..2 addresses; 2 group names per side; one rule whose source list holds two address-groups (1..2 members; the run with 1..3 members ended in an engine / native divergence, i.e. inconclusive, and is not registered)"},
    "outside": "several vsys, destination/service variation, service-groups, nested groups, unknown extra XML attributes, shared objects, IPv6/raw merge (C18), sizes above the bounds, XML text level (encoding/xml is stubbed: native codec for concrete values, blob tokens for symbolic ones), HTTP layer",
    "selftest": "pan-os", "selftest_thorough": "pan-os",
    "runs": [
        {"entry": PAN, "quick": {"N": "2", "G": "1", "srcmax": "1"}, "thorough": {"N": "2", "G": "1", "srcmax": "2"}, "extra": {"maxpaths": 5000000},
         "covers": ["rule moved", "changes emitted", "no change reported"]},
        {"entry": PAN, "quick": {"N": "1", "G": "1", "srcmax": "2"}, "thorough": {"N": "2", "G": "2", "srcmax": "1"}, "extra": {"maxpaths": 5000000}},
        {"entry": PAN, "quick": {"N": "1", "G": "2", "members": "2", "srcmax": "1", "glist": "1"}, "thorough": {"N": "1", "G": "2", "members": "2", "srcmax": "1", "glist": "1"}, "extra": {"maxpaths": 5000000},
         "covers": ["source list with two address-groups"]},
        {"entry": PAN, "quick": {"N": "2", "G": "2", "members": "2", "srcmax": "1", "onlygroups": "1", "oneaction": "1"}, "thorough": {"N": "2", "G": "2", "members": "2", "srcmax": "1", "onlygroups": "1"}, "extra": {"maxpaths": 5000000}},
    ],
}
for _p in ("C07", "C08"):
    PROPS[_p]["runs"] = PROPS[_p]["runs"] + [
        {"entry": PAN, "quick": {"N": "2", "G": "1", "srcmax": "1"}, "thorough": {"N": "2", "G": "1", "srcmax": "2"}, "extra": {"maxpaths": 5000000}}]
PROPS["C08"]["runs"] = PROPS["C08"]["runs"] + [
    {"entry": PAN, "quick": {"N": "2", "G": "2", "members": "2", "srcmax": "1", "onlygroups": "1", "oneaction": "1"}, "thorough": {"N": "2", "G": "2", "members": "2", "srcmax": "1", "onlygroups": "1"}, "extra": {"maxpaths": 5000000}},
    {"entry": PAN, "quick": {"N": "1", "G": "2", "members": "2", "srcmax": "1", "glist": "1"}, "thorough": {"N": "1", "G": "2", "members": "2", "srcmax": "1", "glist": "1"}, "extra": {"maxpaths": 5000000}}]
PROPS["C10"]["runs"] = PROPS["C10"]["runs"] + [
    {"entry": PAN, "quick": {"N": "1", "G": "1", "srcmax": "2", "cut": "1"}, "thorough": {"N": "2", "G": "1", "srcmax": "1", "cut": "1"}, "extra": {"maxpaths": 5000000}, "covers": ["resumed after cut"]}]
PROPS["C07"]["explanation"] += " PAN-OS: every emitted command's xpath must lie below the targeted vsys."

PROPS["C16"] = {
    "explanation": "Twin-run harnesses under the executor's map iteration schedules (insertion order, reversed, rotated by one): bounded symbolic execution (gosx) of the real cisco GetChanges (ASA: findGroupOnDevice, equalizedGroups, deleteUnused, diffConfig), nsx.diffConfig (findGroupOnDevice, adaptGroup) and linux.parseIPTables/diffIPTables on inputs whose solver-chosen content creates ties (several identical left-over object-groups / NSX groups on the device, rules differing in several options); the outputs of the three runs must be identical. Native replay runs the real code 200 times under Go's random map order.",
    "bounds": {"quick": "ASA: n,m<=1 ACL lines referencing up to 2 groups, up to 3 device groups with 1..2 members incl. left-over ones; NSX: n,m<=1 rules, up to 3 device groups; Linux: one rule per side (source, negation, protocol, jump)",
               "thorough": "ASA n,m<=2; NSX n,m<=2; Linux with dport and state"},
    "outside": "schedules other than the three listed for maps with more than 2 entries, IOS and PAN-OS planning (no order-sensitive map iteration found by reading; PAN-OS iterates slices), MergeSpoc, warnings and exit status, sources of nondeterminism other than map order",
    "selftest": "asa_acl|nsx",
    "runs": [
        {"entry": M + "/pkg/asa.VerifDeterminismASA", "quick": {"N": "1"}, "thorough": {"N": "2"}, "extra": {"maxpaths": 3000000}},
        {"entry": M + "/pkg/nsx.VerifDeterminismNSX", "quick": {"N": "1"}, "thorough": {"N": "2"}, "extra": {"maxpaths": 3000000}},
        {"entry": M + "/pkg/ios.VerifDeterminismIOS", "covers": ["two crypto map entries with the same peer (device)", "two crypto map entries with the same peer (target)"]},
        {"entry": M + "/pkg/panos.VerifDeterminismPAN", "covers": ["two vsys with changes", "two target vsys unknown on the device", "two vsys without the NetSPoC marker"]},
        {"entry": M + "/pkg/linux.VerifDeterminismLinux", "quick": {"light": "1"}, "thorough": {"light": "0"}, "extra": {"maxpaths": 3000000},
         "covers": ["rules differ in two or more options"]},
    ],
}
