"""Per-property configuration of the checks (entries, bounds, mandatory
situations).  Bounds registered here are the ones that ran clean on the
unchanged tree."""
M = "github.com/hknutzen/Netspoc-Approve/go"

PROPS = {}

PROPS["C13"] = {
    "explanation": "Bounded symbolic execution (gosx, own Go SSA executor + z3) of status.SetApprove/SetCompare/Read/write and missing-approve check/readFile on a virtual file system: all histories of K events over 9 event kinds with a strictly increasing symbolic 64-bit clock and symbolic code identities; after every event the listing is compared with a ghost 'latest conclusive observation'. Every assertion is an SMT query over all inputs of the path; counterexamples are replayed against the natively compiled code.",
    "bounds": {"quick": "K=3 events, 9 event kinds, 3 code identities, v4 code only",
               "thorough": "K=4 events with v4 code, K=3 with ipv6 and raw components present/absent"},
    "outside": "histories longer than K; equal time stamps; valid JSON with forged values; more than 3 code identities; missing-approve.Main directory walk (check() is entered directly)",
    "selftest": None,
    "runs": [
        {"entry": M + "/cmd/missing-approve.VerifHistory",
         "quick": {"K": "3"}, "thorough": {"K": "4"},
         "covers": ["event: approve ok", "event: approve failed", "event: compare uptodate", "event: compare diff",
                    "event: bzip2 old policy", "event: remove old policy", "event: status damaged", "event: manual drift",
                    "event: new policy same code", "event: new policy other code"]},
        {"entry": M + "/cmd/missing-approve.VerifHistory",
         "quick": {"K": "2", "parts": "1"}, "thorough": {"K": "3", "parts": "1"}},
    ],
}
