#!/usr/bin/env python3
"""Runs the repository's test suite and reports stable_pass tests that do not pass."""
import sys, json, subprocess, os
root = sys.argv[1] if len(sys.argv) > 1 else "/repo/go"
env = dict(os.environ, GOFLAGS="-mod=mod", GOPROXY="off", GOSUMDB="off", GOTOOLCHAIN="local")
p = subprocess.run(["go", "test", "-vet=off", "-count=1", "-json", "-timeout", "25m", "./..."], cwd=root, env=env, capture_output=True, text=True)
res = {}
for l in p.stdout.splitlines():
    try:
        e = json.loads(l)
    except Exception:
        continue
    if e.get("Action") in ("pass", "fail") and e.get("Test"):
        res[e["Package"] + "::" + e["Test"]] = e["Action"]
b = json.load(open("/root/.vp/BASELINE.json"))["stable_pass"]
bad = [t for t in b if res.get(t) != "pass"]
print("stable_pass: %d, passing now: %d, not passing: %s" % (len(b), len(b) - len(bad), bad[:20]))
sys.exit(1 if bad else 0)
