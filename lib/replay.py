#!/usr/bin/env python3
"""replay.py <gosx result json> <violation index> [entry] : native replay with notes"""
import json, sys, os, importlib.machinery, importlib.util, tempfile, shutil
loader = importlib.machinery.SourceFileLoader("check", "/verif/check")
spec = importlib.util.spec_from_loader("check", loader)
check = importlib.util.module_from_spec(spec); loader.exec_module(check)
r = json.load(open(sys.argv[1]))[0]
v = r["Result"]["Violations"][int(sys.argv[2])]
params = {}
for kv in (sys.argv[3].split(",") if len(sys.argv) > 3 and sys.argv[3] else []):
    k, x = kv.split("="); params[k] = x
os.environ["VERIF_NOTES"] = "1"
check.ENV["VERIF_NOTES"] = "1"
scratch = tempfile.mkdtemp(prefix="rp-")
try:
    ok, out = check.native_replay(r["Entry"], params, v.get("Inputs") or [], scratch, expect_label=v["Label"], expect_panic=v["Kind"] == "panic")
    print("reproduced:", ok)
    print(out)
finally:
    shutil.rmtree(scratch, ignore_errors=True)
