#!/bin/bash
# seedtest.sh <patch.diff> <prop> [<prop>...] : apply a seeded change to /repo, run quick checks, undo.
patch=$1; shift
cd /repo || exit 2
if ! git diff --quiet; then echo "/repo not clean"; exit 2; fi
git apply "$patch" || { echo "patch does not apply"; exit 2; }
for p in "$@"; do
  (cd /verif && ./check $p --tier ${TIER:-quick} --no-selftest 2>&1 | grep -v "^KNOWN-FINDING" | cut -c1-400 | head -12; echo "exit=${PIPESTATUS[0]}")
done
git -C /repo checkout -- . ; git -C /repo status --short | head -3
