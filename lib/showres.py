#!/usr/bin/env python3
import json,sys
r=json.load(open(sys.argv[1]))
for e in r:
    R=e['Result']
    for v in R['Violations'] or []:
        print("==",v['Kind'],v['Label'],'|',v.get('Site'),'|',v.get('Message'))
        d={}
        for i in v.get('Inputs') or []:
            val=i.get('Value')
            if i.get('Menu') and isinstance(val,int): val=i['Menu'][val]
            d[i['Name']]=val
        print("   ",d)
    if len(sys.argv)>2:
        print(json.dumps(R.get('Covers'),indent=1))
        pass
