#!/usr/bin/env python3
"""Computes the (case, file, line) targets of the C20 mutation harness from the dumped test cases."""
import json, os, sys

FILES = ["device", "code/router", "code/router.raw", "code/ipv6/router", "code/ipv6/router.raw"]

def targets(cases_dir, dedupe=False, stride=1, offset=0, only=None):
    cases = json.load(open(os.path.join(cases_dir, "cases.json")))
    out, seen, n = [], set(), 0
    for c in cases:
        if only and only not in c["Id"]:
            continue
        if c["Model"] not in ("ASA", "IOS", "Linux", "NSX", "PAN-OS"):
            continue
        contents = {}
        huge = False
        for f in FILES:
            p = os.path.join(c["Dir"], f)
            if os.path.exists(p):
                d = open(p, errors="replace").read()
                contents[f] = d
                if len(d) > 20000:
                    huge = True
        if huge:
            continue
        for f in FILES:
            if f not in contents:
                continue
            lines = contents[f].rstrip("\n").split("\n")
            if len(lines) > (120 if c["Model"] in ("NSX", "PAN-OS") else 60):
                continue
            for i, l in enumerate(lines):
                if not l.strip():
                    continue
                if dedupe:
                    w = l.split()
                    key = (c["Model"], f, l[0] == " ", " ".join(w[:3]), len(w))
                    if c["Model"] in ("NSX", "PAN-OS"):
                        # JSON / XML: one representative per distinct line text
                        key = (c["Model"], f, l.strip())
                        if f.endswith(".raw") or "/ipv6/" in f:
                            # few and context dependent: every case counts
                            key = (c["Id"], f, l.strip())
                    if key in seen:
                        continue
                    seen.add(key)
                if n % stride == offset:
                    out.append({"Id": c["Id"], "Dir": c["Dir"], "File": f, "Line": i})
                n += 1
    return out

if __name__ == "__main__":
    t = targets(sys.argv[1], dedupe=len(sys.argv) > 3 and sys.argv[3] == "dedupe")
    json.dump(t, open(sys.argv[2], "w"))
    print(len(t), "targets")
