#!/bin/bash
# seedcheck.sh <seed-id> <prop> [tier] : run a check against a scratch worktree of /repo with the
# seeded change applied; /repo itself is not touched.  Uses VERIF_REPO.
seed=$1; prop=$2; tier=${3:-quick}
wt=$(mktemp -d /tmp/wt-seed-XXXX)
rmdir $wt
git -C /repo worktree add -q --detach $wt HEAD || exit 2
(cd $wt && git apply /verif/seeded/$seed/patch.diff) || { git -C /repo worktree remove --force $wt; echo "patch does not apply"; exit 2; }
(cd /verif && VERIF_REPO=$wt ./check $prop --tier $tier --no-selftest --evidence-dir /tmp/ev-$$ 2>&1 | grep -v "^KNOWN-FINDING" | cut -c1-300 | tail -8; echo "exit=${PIPESTATUS[0]}")
git -C /repo worktree remove --force $wt
rm -rf /tmp/ev-$$
