#!/bin/bash
# verifyseed.sh <worktree> : confirm a seeded change: builds, stable tests pass, demo fails with / passes without the change.
wt=$1
export GOFLAGS=-mod=mod GOPROXY=off GOSUMDB=off GOTOOLCHAIN=local
cd $wt || exit 2
echo "== build"; (cd go && go build ./... ) && echo build-ok
echo "== stable tests with change"; python3 /verif/lib/repotests.py $wt/go
echo "== demo with change (expect non-zero)"; (sh SEED/run.sh >/tmp/demo.$$ 2>&1; echo "rc=$?"; tail -3 /tmp/demo.$$)
git apply -R SEED/patch.diff || exit 2
echo "== demo without change (expect zero)"; (sh SEED/run.sh >/tmp/demo.$$ 2>&1; echo "rc=$?"; tail -3 /tmp/demo.$$)
git apply SEED/patch.diff
rm -f /tmp/demo.$$
