package device

// IOS dialogue harness: reload guard and asynchronous reload banners (C15),
// failures (C09), compare (C11), wrong/unmanaged device (C06), password (C17).

import (
	"strings"

	"github.com/hknutzen/Netspoc-Approve/go/pkg/ios"
	"github.com/hknutzen/Netspoc-Approve/go/pkg/vf"
	"github.com/hknutzen/Netspoc-Approve/go/pkg/vfsim"
)

var verifIOSDevice = `ip route 10.0.0.0 255.0.0.0 10.1.2.3
ip route 10.5.0.0 255.255.0.0 10.1.2.3
`

var verifIOSSpoc = `ip route 10.0.0.0 255.0.0.0 10.11.22.33
ip route 10.1.1.0 255.255.255.0 10.1.2.3
ip route 10.1.2.0 255.255.255.0 10.2.3.4
`

const verifBanner2 = "\n\n\n\x07***\n*** --- SHUTDOWN in 0:02:00 ---\n***\n"
const verifBanner1 = "\n\n\n\x07***\n*** --- SHUTDOWN in 0:01:00 ---\n***\n"

// the form the device shows when a scheduled reload is aborted (listed in the
// comment of ios.stripReloadBanner; may arrive asynchronously when the
// superseded reload of 'reload in' is announced late)
const verifBannerAborted = "\n\n\n\x07***\n*** --- SHUTDOWN ABORTED ---\n***\n"

func verifIOSScenario(name, hostname string, banner bool, devConf string) *vfsim.Scenario {
	pre := "Enter Password:<!noecho>\n"
	if banner {
		pre += "banner motd  managed by NetSPoC\n"
	}
	pre += hostname + ">"
	return &vfsim.Scenario{
		Name:     name,
		Prompt:   hostname + "#",
		Preamble: pre,
		Cmds: map[string]string{
			"sh ver":             "Cisco IOS Software, C2900 Software (C2900-UNIVERSALK9-M), Version 15.1(4)M4,\n",
			"sh run":             devConf,
			"configure terminal": "Enter configuration commands, one per line.  End with CNTL/Z.\n",
			"reload in 2":        "\nSystem configuration has been modified. Save? [yes/no]: <!>\nReload reason: Reload Command\nProceed with reload? [confirm]<!>\n",
			"reload cancel":      "\n\n\x07***\n*** --- SHUTDOWN ABORTED ---\n***\n",
			"write memory":       "Building configuration...\n  Compressed configuration from 106098 bytes to 30504 bytes[OK]\n",
		},
		FaultPos: -1,
	}
}

func verifIOSExpected(devConf, spoc string) (lines []string, joined []string) {
	s := ios.Setup()
	c1, err := s.ParseConfig([]byte(devConf), "<device>")
	if err != nil {
		panic(err)
	}
	c2, err := s.ParseConfig([]byte(spoc), "router")
	if err != nil {
		panic(err)
	}
	if err := s.GetChanges(c1, c2); err != nil {
		panic(err)
	}
	for _, c := range s.Changes {
		lines = append(lines, strings.Split(c, "\n")...)
		if strings.Contains(c, "\n") {
			joined = append(joined, c)
		}
	}
	return
}

// index helpers on the transcript
func verifIsReloadIn(l string) bool { return l == "reload in 2" || l == "do reload in 2" }

// VerifBannerIOS (C15): a clean approve with one asynchronous reload banner
// of symbolic kind at a symbolic change command and a symbolic offset.
func VerifBannerIOS() {
	vf.Assumption("IOS simulator: reload banner forms of the repository's scenario (three empty lines, BEL, ***, message, ***; messages SHUTDOWN in 0:02:00, SHUTDOWN in 0:01:00, SHUTDOWN ABORTED), with or without a fresh prompt behind it, inserted at any byte offset of the echo of one change command; complete reply available when the tool reads")
	changes, _ := verifIOSExpected(verifIOSDevice, verifIOSSpoc)
	sc := verifIOSScenario("router", "router", true, verifIOSDevice)
	// clean dialogue: password, enable, "", term len, term width, sh ver, "", sh run = 8 lines,
	// prepareDevice 7, reload in 2 + n + "" = 3, configure terminal = 1  => first change at 19
	first := 19
	withBanner := vf.Bool("bannerShown")
	cmdIdx := 0
	if withBanner {
		cmdIdx = vf.Int("bannerAtChange", 0, len(changes)-1)
		sc.BannerPos = first + cmdIdx
		text := vf.SelectString(vf.Int("bannerKind", 0, 2), []string{verifBanner2, verifBanner1, verifBannerAborted})
		sc.BannerOffset = vf.Int("bannerOffset", 0, 45)
		if vf.Bool("bannerWithPrompt") {
			// the form with a fresh prompt behind the banner is known in front of
			// and behind the echo only ('logging synchronous')
			text = "\n\n" + text + "\nrouter#"
			if vf.Bool("bannerBehindEcho") {
				sc.BannerOffset = 1000
			} else {
				sc.BannerOffset = 0
			}
		}
		sc.BannerText = text
	}
	r := verifRunDev("IOS", sc, false, true, verifIOSSpoc)
	tr := r.transcript()
	vf.Note("rc=", r.rc, "transcript:", strings.Join(tr, " | "))
	vf.Note("stderr:", r.stderr)
	isChange := func(l string) bool {
		for _, c := range changes {
			if c == l {
				return true
			}
		}
		return false
	}
	// sanity of the position bookkeeping: the banner hits a change command
	if withBanner {
		k := vf.FixInt(sc.BannerPos)
		if k < len(tr) {
			vf.Assert(isChange(tr[k]), "harness: banner position is not a change command: "+tr[k])
		}
	}
	// known defect family: a banner directly behind the echo of the first of
	// two joined commands makes TryPrompt swallow the answer of the second one
	tag := ""
	if withBanner {
		line := changes[vf.FixInt(cmdIdx)]
		_, joined := verifIOSExpected(verifIOSDevice, verifIOSSpoc)
		firstHalf := false
		for _, j := range joined {
			if a, _, _ := strings.Cut(j, "\n"); a == line {
				firstHalf = true
			}
		}
		if firstHalf && (strings.HasSuffix(sc.BannerText, "#") || sc.BannerOffset >= len(line)) {
			tag = " [banner in front of (with prompt) or directly behind the echo of the first of two joined commands]"
			vf.Cover("banner at the border of the echo of the first of two joined commands")
		}
	}
	// outcome equivalence: banners do not change the outcome
	vf.Assert(r.rc == 0, "C15: reload banner changes the outcome of the run (exit status)"+tag)
	pos := 0
	for _, l := range tr {
		if pos < len(changes) && l == changes[pos] {
			pos++
		}
	}
	vf.Assert(pos == len(changes), "C15: reload banner changes the outcome of the run (not all change commands sent)"+tag)
	// guard: every change command between 'reload in' and 'reload cancel'
	armed := false
	saved := false
	for _, l := range tr {
		if verifIsReloadIn(l) {
			armed = true
		}
		if l == "reload cancel" {
			armed = false
		}
		if isChange(l) {
			vf.Assert(armed, "C15: change command sent without a scheduled reload")
			vf.Assert(!saved, "C15: change command sent after write memory")
		}
		if l == "write memory" {
			saved = true
			vf.Assert(!armed, "C15: write memory while the reload is still scheduled")
		}
	}
	vf.Assert(saved, "C15: configuration not written to memory after a successful run"+tag)
	vf.Assert(!armed, "C15: reload left pending after a successful run")
	// the one-minute warning re-arms the reload before the next change command
	if withBanner && sc.BannerText != "" {
		oneMin := strings.Contains(sc.BannerText, "0:01:00")
		if oneMin { // forks on the symbolic banner kind
			vf.Cover("one-minute warning shown")
			k := vf.FixInt(sc.BannerPos)
			rearmed := false
			// the joined partner of a replacement is sent in the same packet
			for i := k + 1; i < len(tr); i++ {
				if tr[i] == "do reload in 2" {
					rearmed = true
					break
				}
				if isChange(tr[i]) && !verifSamePacket(tr[k], tr[i]) {
					break
				}
				if tr[i] == "end" {
					break
				}
			}
			vf.Assert(rearmed, "C15: one-minute warning not followed by 'do reload in 2' before the next change command")
		} else {
			vf.Cover("two-minute banner shown")
		}
	}
	for name, text := range r.sinkTexts() {
		vf.Assert(!strings.Contains(text, verifPassword), "C17: IOS: login password appears in "+name)
	}
}

func verifSamePacket(a, b string) bool {
	_, joined := verifIOSExpected(verifIOSDevice, verifIOSSpoc)
	for _, j := range joined {
		x, y, _ := strings.Cut(j, "\n")
		if x == a && y == b {
			return true
		}
	}
	return false
}

// VerifDialogueIOS: one symbolic fault at a symbolic position (C09, C11, C17).
func VerifDialogueIOS() {
	changes, joined := verifIOSExpected(verifIOSDevice, verifIOSSpoc)
	sc := verifIOSScenario("router", "router", true, verifIOSDevice)
	verifFaultDialogue("IOS", sc, verifIOSSpoc, changes, joined, 28+len(changes))
}

// VerifUnmanagedIOS: C06 for IOS.
func VerifUnmanagedIOS() {
	changes, _ := verifIOSExpected(verifIOSDevice, verifIOSSpoc)
	verifUnmanaged("IOS", changes, verifIOSSpoc, func(host string, banner bool) *vfsim.Scenario {
		return verifIOSScenario("router", host, banner, verifIOSDevice)
	})
}
