package device

// C20 for the info file: the file <code>.info is replaced by a solver-chosen
// member of a family of damaged variants (truncations, wrong JSON types,
// garbage, empty file); file compare and approve must end with exit status 0
// or 1, never with a Go panic.

import (
	"os"
	"path"

	"github.com/hknutzen/Netspoc-Approve/go/pkg/program"
	"github.com/hknutzen/Netspoc-Approve/go/pkg/vf"
)

var verifInfoVariants = []string{
	`{"generated_by":"devel","model":"ASA","ip_list":["10.1.13.33"],"name_list":["router"]}`,
	``,
	`NO_JSON`,
	`{`,
	`{"model":"ASA"`,
	`{"model":"ASA","ip_list":["10.1.13.33"],"name_list":["router"]`,
	`{"model":"ASA","ip_list":["10.1.13.33"],"name_list":`,
	`{"model":"ASA","ip_list":"10.1.13.33","name_list":["router"]}`,
	`{"model":"ASA","ip_list":[10],"name_list":["router"]}`,
	`{"model":5,"ip_list":["10.1.13.33"],"name_list":["router"]}`,
	`{"model":"ASA","ip_list":["10.1.13.33"],"name_list":["router"]} trailing`,
	`[]`,
	`null`,
	`"ASA"`,
	`{"model":"ASA","ip_list":[],"name_list":[]}`,
	`{"model":"ASA","ip_list":["10.1.13.33","10.1.13.34"],"name_list":["router"]}`,
	`{"model":"","ip_list":["10.1.13.33"],"name_list":["router"]}`,
	`{"model":"Unknown","ip_list":["10.1.13.33"],"name_list":["router"]}`,
	"\x00\xff\xfe",
	`{"model":"ASA","model":"IOS"}`,
	`{"MODEL":"NSX","ip_list":["10.1.13.33"],"name_list":["router"]}`,
	`{"model":"PAN-OS","name_list":["router"]}`,
}

func VerifGarbageInfo() {
	vf.Assumption("info file variants: valid, empty, not JSON, truncated at several places, wrong JSON types for model / ip_list / name_list, trailing text, array / null / string instead of an object, empty lists, lists of different length, unknown and empty model, binary garbage, duplicate and upper-case keys")
	base := vf.TempDir()
	defer os.RemoveAll(base)
	codeDir := path.Join(base, "code")
	os.MkdirAll(codeDir, 0755)
	code := path.Join(codeDir, "router")
	conf := "access-list inside_in extended deny ip any4 any4\naccess-group inside_in in interface inside\n"
	os.WriteFile(code, []byte(conf), 0644)
	os.WriteFile(path.Join(base, "device"), []byte(conf), 0644)
	os.WriteFile(path.Join(base, "credentials"), []byte("* netspoc secret\n"), 0644)
	v := vf.FixInt(vf.Int("infoVariant", 0, len(verifInfoVariants)-1))
	where := vf.FixInt(vf.Int("infoFileOf", 0, 2)) // 0 v4 info, 1 ipv6 info only, 2 both
	if where != 1 {
		os.WriteFile(code+".info", []byte(verifInfoVariants[v]), 0644)
	}
	if where != 0 {
		os.MkdirAll(path.Join(codeDir, "ipv6"), 0755)
		os.WriteFile(path.Join(codeDir, "ipv6", "router.info"), []byte(verifInfoVariants[v]), 0644)
	}
	vf.Note("info:", verifInfoVariants[v])
	rc := -1
	errText := vf.CaptureStderr(func() {
		vf.CaptureStdout(func() {
			if vf.Bool("viaApprove") {
				// approve stops at the login (no simulator is configured)
				cfg := &program.Config{BaseDir: base, Timeout: 1, LoginTimeout: 1}
				os.Setenv("SIMULATE_ROUTER", "/bin/false")
				if vf.Symbolic() {
					vf.Hook("http.do", func(method, uri, body string) (int, string, string, string) {
						return 0, "", "", "connection refused"
					})
				}
				rc = ApproveOrCompare(true, code, cfg, "", "", true)
			} else {
				rc = CompareFiles(path.Join(base, "device"), code, true)
			}
		})
	})
	vf.Note("rc=", rc, "stderr:", errText)
	if rc == 0 {
		vf.Cover("input accepted")
	} else {
		vf.Cover("input rejected with exit status 1")
	}
	vf.Assert(rc == 0 || rc == 1, "C20: exit status other than 0 or 1 for a damaged info file")
	if rc == 1 {
		vf.Assert(errText != "", "C20: damaged info file rejected without a message")
	}
}
