package device

// PAN-OS dialogue harness (HTTP): login (API key), HA state, candidate
// configuration, change commands, commit and job polling against a
// simulated XML API; one fault of symbolic kind at a symbolic request.
// Decides C06 (vsys marker, HA state, hostname), C09, C11, C17 for PAN-OS.

import (
	"net/http"
	"net/http/httptest"
	"net/url"
	"os"
	"path"
	"regexp"
	"strings"

	"github.com/hknutzen/Netspoc-Approve/go/pkg/program"
	"github.com/hknutzen/Netspoc-Approve/go/pkg/vf"
)

const verifAPIKey = "LUFRPT1+ab/cd=="

func verifPanSpocVsys(name string) string {
	return `<entry name="` + name + `">
<rulebase><security><rules>
<entry name="r1">
<action>allow</action>
<from><member>z1</member></from>
<to><member>z2</member></to>
<source><member>any</member></source>
<destination><member>any</member></destination>
<service><member>tcp 80</member></service>
<application><member>any</member></application>
<rule-type>interzone</rule-type>
</entry>
</rules></security></rulebase>
<service>
<entry name="tcp 80"><protocol><tcp><port>80</port></tcp></protocol></entry>
</service>
</entry>`
}

// two vsys with pending changes: the change commands of one run span both
var verifPanSpoc = `<config><devices><entry name="localhost.localdomain"><vsys>` + verifPanSpocVsys("vsys1") + verifPanSpocVsys("vsys2") + `</vsys></entry></devices></config>
`

type verifPanSim struct {
	hostname    string
	displayName string
	ha          string // "", "active", "passive", "active-primary", "active-secondary"
	faultPos    int
	faultKind   int // 0 none, 1 status 500, 2 malformed XML, 3 status="error", 4 transport error, 5 commit job FAIL, 6 reply cut off inside the body
	pend        int // number of PEND answers before the job result
	jobFail     bool
	failURI     string // a transport error persists for retries of the same request
	reqs        []string
}

func (s *verifPanSim) respond(method, uri, body string) (int, string, string, string) {
	if s.failURI != "" && uri == s.failURI {
		// net/http retries an idempotent request once on a fresh connection
		return 0, "", "", "EOF"
	}
	idx := len(s.reqs)
	s.reqs = append(s.reqs, uri)
	fault := 0
	if idx == s.faultPos {
		fault = s.faultKind
	}
	switch fault {
	case 1:
		return 500, "internal error", "", ""
	case 2:
		return 200, "<response status=\"success\"><result><unclosed>", "", ""
	case 3:
		return 200, `<response status="error" code="12"><msg>Invalid command</msg></response>`, "", ""
	case 4:
		s.failURI = uri
		return 0, "", "", "EOF"
	case 6:
		// status 200 and headers arrive, the connection drops inside the body
		return 200, `<response status="succ`, "", "BODY:unexpected EOF"
	}
	switch {
	case strings.Contains(uri, "type=keygen"):
		return 200, `<response status="success"><result><key>` + verifAPIKey + `</key></result></response>`, "", ""
	case strings.Contains(uri, "<high-availability>"):
		if s.ha == "" {
			return 200, `<response status="success"><result><enabled>no</enabled></result></response>`, "", ""
		}
		mode := "Active-Passive"
		if strings.HasPrefix(s.ha, "active-") {
			mode = "Active-Active"
		}
		return 200, `<response status="success"><result><enabled>yes</enabled><group><mode>` + mode +
			`</mode><local-info><state>` + s.ha + `</state></local-info></group></result></response>`, "", ""
	case strings.Contains(uri, "action=get"):
		return 200, `<response status="success"><result><devices><entry name="localhost.localdomain"><deviceconfig><system><hostname>` +
			s.hostname + `</hostname></system></deviceconfig><vsys><entry name="vsys1"><display-name>` + s.displayName +
			`</display-name><rulebase><security><rules></rules></security></rulebase></entry><entry name="vsys2"><display-name>` + s.displayName +
			`</display-name><rulebase><security><rules></rules></security></rulebase></entry></vsys></entry></devices></result></response>`, "", ""
	case strings.Contains(uri, "type=commit"):
		return 200, `<response status="success" code="19"><result><job>6</job></result></response>`, "", ""
	case strings.Contains(uri, "<show><jobs>"):
		if fault == 5 {
			s.jobFail = true
		}
		if s.pend > 0 {
			s.pend--
			return 200, `<response status="success"><result><job><result>PEND</result></job></result></response>`, "", ""
		}
		if s.jobFail {
			return 200, `<response status="success"><result><job><result>FAIL</result></job></result></response>`, "", ""
		}
		return 200, `<response status="success"><result><job><result>OK</result></job></result></response>`, "", ""
	case strings.Contains(uri, "type=config"):
		return 200, `<response status="success" code="20"><msg>command succeeded</msg></response>`, "", ""
	}
	return 404, "not found", "", ""
}

func verifPanIsChange(uri string) bool {
	return strings.Contains(uri, "type=config") && !strings.Contains(uri, "action=get")
}

type verifPanRun struct {
	base, logDir string
	rc           int
	stderr       string
	stdout       string
}

func (r *verifPanRun) sinkTexts() map[string]string {
	m := map[string]string{"stderr": r.stderr, "stdout": r.stdout}
	for _, ext := range []string{".login", ".config", ".change", ".cmp"} {
		if d, err := os.ReadFile(path.Join(r.logDir, "router"+ext)); err == nil {
			m[ext] = string(d)
		}
	}
	return m
}

func verifRunPan(sim *verifPanSim, isCompare bool) *verifPanRun {
	r := &verifPanRun{}
	r.base = vf.TempDir()
	r.logDir = path.Join(r.base, "log")
	codeDir := path.Join(r.base, "code")
	os.MkdirAll(codeDir, 0755)
	os.MkdirAll(r.logDir, 0755)
	os.WriteFile(path.Join(codeDir, "router"), []byte(verifPanSpoc), 0644)
	os.WriteFile(path.Join(codeDir, "router.info"), []byte(`{"model":"PAN-OS","name_list":["router"],"ip_list":["10.1.13.33"]}`), 0644)
	os.WriteFile(path.Join(r.base, "credentials"), []byte("* admin "+verifPassword+"\n"), 0644)
	cfg := &program.Config{BaseDir: r.base, Timeout: 2, LoginTimeout: 2, CheckBanner: regexp.MustCompile("NetSPoC")}
	logArg := r.logDir
	if vf.Bool("run without log directory") {
		logArg = ""
		vf.Cover("run without log directory")
	}
	if vf.Symbolic() {
		os.Setenv("SIMULATE_ROUTER", "https://sim.example")
		vf.Hook("http.do", sim.respond)
	} else {
		srv := httptest.NewTLSServer(http.HandlerFunc(func(w http.ResponseWriter, req *http.Request) {
			// the tool does not escape its query: use the raw request URI
			status, body, _, terr := sim.respond(req.Method, req.RequestURI, "")
			if strings.HasPrefix(terr, "BODY:") {
				// declare more than is sent: the server drops the connection
				w.Header().Set("Content-Length", "64")
				w.WriteHeader(status)
				w.Write([]byte(body))
				return
			}
			if terr != "" {
				if hj, ok := w.(http.Hijacker); ok {
					c, _, _ := hj.Hijack()
					c.Close()
					return
				}
			}
			w.WriteHeader(status)
			w.Write([]byte(body))
		}))
		defer srv.Close()
		os.Setenv("SIMULATE_ROUTER", srv.URL)
	}
	r.stderr = vf.CaptureStderr(func() {
		r.stdout = vf.CaptureStdout(func() {
			r.rc = ApproveOrCompare(isCompare, path.Join(codeDir, "router"), cfg, logArg, "", false)
		})
	})
	return r
}

// secrets must not appear plain, query-escaped or path-escaped
func verifLeak(text, secret string) bool {
	return strings.Contains(text, secret) || strings.Contains(text, url.QueryEscape(secret)) ||
		strings.Contains(text, url.PathEscape(secret))
}

// VerifDialoguePAN: one fault at a symbolic request.
func VerifDialoguePAN() {
	isCompare := vf.Param("mode", "approve") == "compare"
	vf.Assumption("PAN-OS XML API simulator: answers per request kind (keygen, HA state, candidate config, config commands, commit, job status); faults: HTTP 500, malformed XML, status=error, transport error (connection closed: *url.Error embeds the request URL), commit job FAIL after 0..1 PEND, reply cut off inside the body")
	sim := &verifPanSim{hostname: "router", displayName: "vsys1 netspoc", faultPos: -1}
	sim.faultPos = vf.FixInt(vf.Int("faultPos", -1, 11))
	sim.faultKind = vf.FixInt(vf.Int("faultKind", 1, 6))
	sim.pend = vf.FixInt(vf.Int("pendAnswers", 0, 1))
	r := verifRunPan(sim, isCompare)
	vf.Note("rc=", r.rc, "requests:", len(sim.reqs), "stderr:", r.stderr)
	reached := sim.faultPos >= 0 && sim.faultPos < len(sim.reqs)
	site := ""
	if reached {
		vf.Cover("fault reached")
		u := sim.reqs[sim.faultPos]
		switch {
		case strings.Contains(u, "type=keygen"):
			site = "keygen"
		case strings.Contains(u, "<high-availability>"):
			site = "HA state"
		case strings.Contains(u, "action=get"):
			site = "config fetch"
		case strings.Contains(u, "type=commit"):
			site = "commit"
		case strings.Contains(u, "<show><jobs>"):
			site = "job poll"
		default:
			site = "config command"
		}
	}
	// C17
	tag := ""
	if reached && sim.faultKind == 4 && site != "keygen" {
		tag = " [transport error at " + site + "]"
	}
	for name, text := range r.sinkTexts() {
		vf.Assert(!verifLeak(text, verifAPIKey), "C17: PAN-OS: API key appears in "+name+tag)
		vf.Assert(!verifLeak(text, verifPassword), "C17: PAN-OS: login password appears in "+name)
	}
	effective := reached && !(sim.faultKind == 5 && site != "job poll")
	nChange, nCommit := 0, 0
	for i, u := range sim.reqs {
		if verifPanIsChange(u) {
			nChange++
			if effective && i > sim.faultPos {
				vf.Assert(false, "C09: PAN-OS: change command sent after a device-side failure")
			}
		}
		if strings.Contains(u, "type=commit") {
			nCommit++
			if effective && i > sim.faultPos {
				vf.Assert(false, "C09: PAN-OS: commit sent after a device-side failure")
			}
		}
	}
	if isCompare {
		vf.Assert(nChange == 0, "C11: PAN-OS: compare sent a change command")
		vf.Assert(nCommit == 0, "C11: PAN-OS: compare sent a commit")
		vf.Cover("compare run checked")
		return
	}
	if effective {
		vf.Cover("failure injected")
		vf.Assert(r.rc != 0, "C09: PAN-OS: device-side failure but exit status 0 ("+site+")")
	}
	if r.rc == 0 {
		vf.Cover("approve succeeded")
		vf.Assert(nChange >= 4 && nCommit == 1, "C09: PAN-OS: exit status 0 although changes or commit are missing")
		vf.Assert(!effective, "C09: PAN-OS: exit status 0 although a device-side failure occurred")
	}
}

// VerifUnmanagedPAN: C06 for PAN-OS: vsys marker, HA state, hostname.
func VerifUnmanagedPAN() {
	sim := &verifPanSim{faultPos: -1}
	sim.hostname = vf.FixString(vf.Pick("reportedHostname", verifHostnames))
	sim.displayName = vf.FixString(vf.Pick("vsysDisplayName", []string{"vsys1 netspoc", "NetSPoC managed", "customer vsys"}))
	sim.ha = vf.FixString(vf.Pick("haState", []string{"", "active", "passive", "active-primary", "active-secondary", "suspended"}))
	r := verifRunPan(sim, false)
	vf.Note("rc=", r.rc, "requests:", len(sim.reqs), "stderr:", r.stderr)
	active := sim.ha == "" || sim.ha == "active" || sim.ha == "active-primary"
	managed := sim.hostname == "router" && strings.Contains(strings.ToLower(sim.displayName), "netspoc") && active
	nChange, nCommit := 0, 0
	for _, u := range sim.reqs {
		if verifPanIsChange(u) {
			nChange++
		}
		if strings.Contains(u, "type=commit") {
			nCommit++
		}
	}
	if !managed {
		vf.Cover("wrong, unmanaged or passive device")
		vf.Assert(nChange == 0, "C06: PAN-OS: change command sent to a wrong, unmanaged or passive device")
		vf.Assert(nCommit == 0, "C06: PAN-OS: commit sent to a wrong, unmanaged or passive device")
		vf.Assert(r.rc != 0, "C06: PAN-OS: exit status 0 for a wrong, unmanaged or passive device")
		vf.Assert(strings.Contains(r.stderr, "ERROR>>>"), "C06: PAN-OS: no diagnostic for a wrong, unmanaged or passive device")
	} else {
		vf.Cover("managed device")
		vf.Assert(r.rc == 0 && nChange >= 4 && nCommit == 1, "C06: PAN-OS: approve of a managed active device failed")
	}
}
