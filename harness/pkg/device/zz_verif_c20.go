package device

// C20 harness: every line of the repository's test configurations is
// replaced by a symbolic member of the mutation family of the property
// (word-prefix truncations, single-token deletions, duplications, swaps,
// indentation changes); the real CompareFiles must end without a Go panic.

import (
	"encoding/json"
	"os"
	"path"
	"strconv"
	"strings"

	"github.com/hknutzen/Netspoc-Approve/go/pkg/vf"
)

type verifCase struct {
	Id    string
	Model string
	Dir   string
}

func verifMutations(line string) []string {
	trimmed := strings.TrimLeft(line, " ")
	indent := line[:len(line)-len(trimmed)]
	w := strings.Fields(trimmed)
	seen := map[string]bool{line: true}
	var out []string
	add := func(s string) {
		if !seen[s] && len(out) < 63 {
			seen[s] = true
			out = append(out, s)
		}
	}
	for t := 0; t < len(w); t++ {
		add(indent + strings.Join(w[:t], " "))
	}
	for d := range w {
		x := append(append([]string{}, w[:d]...), w[d+1:]...)
		add(indent + strings.Join(x, " "))
	}
	for d := range w {
		x := append(append(append([]string{}, w[:d+1]...), w[d]), w[d+1:]...)
		add(indent + strings.Join(x, " "))
	}
	for d := 0; d+1 < len(w); d++ {
		x := append([]string{}, w...)
		x[d], x[d+1] = x[d+1], x[d]
		add(indent + strings.Join(x, " "))
	}
	add(" " + line)
	if indent != "" {
		add(line[1:])
	}
	return out
}

// VerifMutateLine: params cases=<dir with cases.json>, stride, offset select
// the (case, file, line) triples of this run.
func VerifMutateLine() {
	dir := vf.Param("cases", "")
	stride, _ := strconv.Atoi(vf.Param("stride", "1"))
	offset, _ := strconv.Atoi(vf.Param("offset", "0"))
	only := vf.Param("only", "")
	data, err := os.ReadFile(path.Join(dir, "cases.json"))
	if err != nil {
		panic(err)
	}
	var cases []verifCase
	if err := json.Unmarshal(data, &cases); err != nil {
		panic(err)
	}
	type target struct {
		c     verifCase
		file  string // relative to case dir
		lines []string
		idx   int
	}
	var targets []target
	n := 0
	for _, c := range cases {
		if only != "" && !strings.Contains(c.Id, only) {
			continue
		}
		switch c.Model {
		case "ASA", "IOS", "Linux":
		default:
			continue // JSON / XML inputs: structure-level harnesses
		}
		files := []string{"device", "code/router", "code/router.raw", "code/ipv6/router", "code/ipv6/router.raw"}
		huge := false
		for _, f := range files {
			if d, err := os.ReadFile(path.Join(c.Dir, f)); err == nil && len(d) > 20000 {
				huge = true
			}
		}
		if huge {
			continue // ios_long-acl: 10000 line ACL, outside the step budget
		}
		for _, f := range files {
			d, err := os.ReadFile(path.Join(c.Dir, f))
			if err != nil {
				continue
			}
			lines := strings.Split(strings.TrimRight(string(d), "\n"), "\n")
			if len(lines) > 60 {
				continue
			}
			for i, l := range lines {
				if strings.TrimSpace(l) == "" {
					continue
				}
				if n%stride == offset {
					targets = append(targets, target{c, f, lines, i})
				}
				n++
			}
		}
	}
	if len(targets) == 0 {
		vf.Assume(false)
	}
	vf.Cover("targets selected")
	// one target per path group: fork over targets
	ti := vf.FixInt(vf.Int("target", 0, len(targets)/64))
	tj := vf.FixInt(vf.Int("targetLow", 0, 63))
	k := ti*64 + tj
	vf.Assume(k < len(targets))
	t := targets[k]
	muts := verifMutations(t.lines[t.idx])
	if len(muts) == 0 {
		vf.Assume(false)
	}
	m := vf.Int("mutation", 0, len(muts)-1)
	newLine := vf.SelectString(m, muts)
	text := strings.Join(t.lines[:t.idx], "\n")
	if t.idx > 0 {
		text += "\n"
	}
	text += newLine + "\n" + strings.Join(t.lines[t.idx+1:], "\n") + "\n"

	// copy the case into a scratch directory with the mutated file
	work := vf.TempDir()
	defer os.RemoveAll(work)
	for _, f := range []string{"device", "code/router", "code/router.raw", "code/ipv6/router", "code/ipv6/router.raw", "code/router.info", "code/ipv6/router.info"} {
		d, err := os.ReadFile(path.Join(t.c.Dir, f))
		if err != nil {
			continue
		}
		os.MkdirAll(path.Dir(path.Join(work, f)), 0755)
		if f == t.file {
			os.WriteFile(path.Join(work, f), []byte(text), 0644)
		} else {
			os.WriteFile(path.Join(work, f), d, 0644)
		}
	}
	vf.Note("case", t.c.Id, "file", t.file, "line", t.idx, ":", t.lines[t.idx])
	var rc int
	vf.CaptureStderr(func() {
		vf.CaptureStdout(func() {
			rc = CompareFiles(path.Join(work, "device"), path.Join(work, "code/router"), true)
		})
	})
	vf.Assert(rc == 0 || rc == 1, "C20: exit status other than 0 or 1")
	if rc == 1 {
		vf.Cover("input rejected with exit status 1")
	} else {
		vf.Cover("input accepted")
	}
}
