package device

// C20 harness: every line of the repository's test configurations is
// replaced by a symbolic member of the mutation family of the property
// (word-prefix truncations, single-token deletions, duplications, swaps,
// indentation changes); the real CompareFiles must end without a Go panic.

import (
	"encoding/json"
	"os"
	"path"
	"strings"

	"github.com/hknutzen/Netspoc-Approve/go/pkg/vf"
)

type verifCase struct {
	Id    string
	Model string
	Dir   string
}

func verifMutations(line string) []string {
	trimmed := strings.TrimLeft(line, " ")
	indent := line[:len(line)-len(trimmed)]
	w := strings.Fields(trimmed)
	seen := map[string]bool{line: true}
	var out []string
	add := func(s string) {
		if !seen[s] && len(out) < 63 {
			seen[s] = true
			out = append(out, s)
		}
	}
	for t := 0; t < len(w); t++ {
		add(indent + strings.Join(w[:t], " "))
	}
	for d := range w {
		x := append(append([]string{}, w[:d]...), w[d+1:]...)
		add(indent + strings.Join(x, " "))
	}
	for d := range w {
		x := append(append(append([]string{}, w[:d+1]...), w[d]), w[d+1:]...)
		add(indent + strings.Join(x, " "))
	}
	for d := 0; d+1 < len(w); d++ {
		x := append([]string{}, w...)
		x[d], x[d+1] = x[d+1], x[d]
		add(indent + strings.Join(x, " "))
	}
	add(" " + line)
	if indent != "" {
		add(line[1:])
	}
	return out
}

type verifTarget struct {
	Id   string
	Dir  string
	File string // relative to Dir
	Line int
}

// VerifMutateLine: param targets=<json file with the (case, file, line)
// triples of this run>, written by the check driver from the repository's
// test data.
func VerifMutateLine() {
	data, err := os.ReadFile(vf.Param("targets", ""))
	if err != nil {
		panic(err)
	}
	var targets []verifTarget
	if err := json.Unmarshal(data, &targets); err != nil {
		panic(err)
	}
	if len(targets) == 0 {
		vf.Assume(false)
	}
	vf.Cover("targets selected")
	// one target per path group: fork over targets
	// (a selector has at most 64 values: three levels address 262144 targets)
	th := 0
	if len(targets) > 4096 {
		th = vf.FixInt(vf.Int("targetHigh", 0, (len(targets)-1)/4096))
	}
	hi := (len(targets) - 1) / 64
	if hi > 63 {
		hi = 63
	}
	ti := vf.FixInt(vf.Int("target", 0, hi))
	tj := vf.FixInt(vf.Int("targetLow", 0, 63))
	k := th*4096 + ti*64 + tj
	vf.Assume(k < len(targets))
	tg := targets[k]
	fdata, err := os.ReadFile(path.Join(tg.Dir, tg.File))
	if err != nil {
		panic(err)
	}
	var t struct {
		c     verifCase
		file  string
		lines []string
		idx   int
	}
	t.c = verifCase{Id: tg.Id, Dir: tg.Dir}
	t.file = tg.File
	t.lines = strings.Split(strings.TrimRight(string(fdata), "\n"), "\n")
	t.idx = tg.Line
	muts := verifMutations(t.lines[t.idx])
	if len(muts) == 0 {
		vf.Assume(false)
	}
	m := vf.Int("mutation", 0, len(muts)-1)
	newLine := vf.SelectString(m, muts)
	text := strings.Join(t.lines[:t.idx], "\n")
	if t.idx > 0 {
		text += "\n"
	}
	text += newLine + "\n" + strings.Join(t.lines[t.idx+1:], "\n") + "\n"

	// copy the case into a scratch directory with the mutated file
	work := vf.TempDir()
	defer os.RemoveAll(work)
	for _, f := range []string{"device", "code/router", "code/router.raw", "code/ipv6/router", "code/ipv6/router.raw", "code/router.info", "code/ipv6/router.info"} {
		d, err := os.ReadFile(path.Join(t.c.Dir, f))
		if err != nil {
			continue
		}
		os.MkdirAll(path.Dir(path.Join(work, f)), 0755)
		if f == t.file {
			os.WriteFile(path.Join(work, f), []byte(text), 0644)
		} else {
			os.WriteFile(path.Join(work, f), d, 0644)
		}
	}
	vf.Note("case", t.c.Id, "file", t.file, "line", t.idx, ":", t.lines[t.idx])
	var rc int
	vf.CaptureStderr(func() {
		vf.CaptureStdout(func() {
			rc = CompareFiles(path.Join(work, "device"), path.Join(work, "code/router"), true)
		})
	})
	vf.Assert(rc == 0 || rc == 1, "C20: exit status other than 0 or 1")
	if rc == 1 {
		vf.Cover("input rejected with exit status 1")
	} else {
		vf.Cover("input accepted")
	}
}
