package device

// Linux dialogue harness: wrong / unmanaged device (C06), failures (C09),
// compare (C11), password (C17).

import (
	"os"
	"strings"

	"github.com/hknutzen/Netspoc-Approve/go/pkg/vf"
	"github.com/hknutzen/Netspoc-Approve/go/pkg/vfsim"
)

var verifLinuxSpoc = `ip route add 0.0.0.0/0 via 10.1.1.99
ip route add 10.2.0.0/16 via 10.1.1.98

*filter
:INPUT DROP
-A INPUT -j ACCEPT -s 10.1.11.111 -d 10.10.1.2 -p tcp --dport 22
`

func verifLinuxScenario(host string, issue bool) *vfsim.Scenario {
	issueLine := ""
	if issue {
		issueLine = "--- managed by NetSPoC ---\n"
	}
	return &vfsim.Scenario{
		Name:     "router",
		Prompt:   "router#",
		Preamble: "netspoc@10.1.13.33's password: <!noecho>\nLinux router 3.2.89\nroot@linux-router:~#",
		Cmds: map[string]string{
			"echo $?":                   "0\n",
			"uname -r":                  "3.2.89-2.custom\n",
			"uname -m":                  "i686\n",
			"hostname -s":               host + "\n",
			"grep 'NetSPoC' /etc/issue": issueLine,
			"which iptables-restore":    "/sbin/iptables-restore\n",
			"ip route show":             "0.0.0.0/0 via 10.1.1.1\n10.9.0.0/24 dev eth0 proto kernel scope link src 10.9.0.1\n",
			"iptables-save":             "*filter\n:INPUT DROP\n-A INPUT -j ACCEPT -s 10.1.11.111 -d 10.10.1.2 -p tcp --dport 23\nCOMMIT\n",
		},
		FaultPos: -1,
	}
}

func verifLinuxIsChange(l string) bool {
	return strings.HasPrefix(l, "ip route add ") || strings.HasPrefix(l, "ip route del ") ||
		strings.HasPrefix(l, "chmod ") || strings.HasPrefix(l, "/etc/network/") || strings.HasPrefix(l, "mv -f ")
}

// VerifUnmanagedLinux: C06 for Linux.
func VerifUnmanagedLinux() {
	os.Setenv("SIMULATE_ROUTER", "sim") // scp is skipped, as in the repository's tests
	host := vf.FixString(vf.Pick("reportedHostname", verifHostnames))
	issue := vf.Bool("markerInEtcIssue")
	checkBanner := vf.Bool("checkbannerConfigured")
	sc := verifLinuxScenario(host, issue)
	r := verifRunDev("Linux", sc, false, checkBanner, verifLinuxSpoc)
	tr := r.transcript()
	vf.Note("rc=", r.rc, "transcript:", strings.Join(tr, " | "))
	vf.Note("stderr:", r.stderr)
	unmanaged := host != "router" || (checkBanner && !issue)
	why := ""
	if host == "router" && checkBanner && !issue {
		why = " [marker missing in /etc/issue]"
	}
	if unmanaged {
		vf.Cover("wrong or unmanaged device")
		for _, l := range tr {
			vf.Assert(!verifLinuxIsChange(l), "C06: Linux: change command sent to a wrong or unmanaged device"+why)
		}
		vf.Assert(r.rc != 0, "C06: Linux: exit status 0 for a wrong or unmanaged device"+why)
	} else {
		vf.Cover("managed device")
		if !checkBanner {
			vf.Cover("banner check not configured")
		}
		vf.Assert(r.rc == 0, "C06: Linux: approve of a managed device failed")
		n := 0
		for _, l := range tr {
			if verifLinuxIsChange(l) {
				n++
			}
		}
		vf.Assert(n >= 4, "C06: Linux: changes not sent to a managed device")
	}
	for name, text := range r.sinkTexts() {
		vf.Assert(!strings.Contains(text, verifPassword), "C17: Linux: login password appears in "+name)
	}
}

// VerifDialogueLinux: one symbolic fault (C09, C11, C17 for Linux).
func VerifDialogueLinux() {
	os.Setenv("SIMULATE_ROUTER", "sim")
	isCompare := vf.Param("mode", "approve") == "compare"
	sc := verifLinuxScenario("router", true)
	sc.FaultPos = vf.Int("faultPos", -1, 30)
	kind := vf.FixInt(vf.Int("faultKind", 0, 4))
	switch kind {
	case 0:
		sc.FaultKind = vfsim.FaultOutput
		sc.FaultText = "RTNETLINK answers: File exists\n"
	case 1:
		sc.FaultKind = vfsim.FaultReplace // non-zero exit status, if the line is 'echo $?'
		sc.FaultText = "2\n"
	case 2:
		sc.FaultKind = vfsim.FaultGarble
	case 3:
		sc.FaultKind = vfsim.FaultStall
	case 4:
		sc.FaultKind = vfsim.FaultClose
	}
	r := verifRunDev("Linux", sc, isCompare, true, verifLinuxSpoc)
	tr := r.transcript()
	vf.Note("rc=", r.rc, "transcript:", strings.Join(tr, " | "))
	vf.Note("stderr:", r.stderr)
	for name, text := range r.sinkTexts() {
		vf.Assert(!strings.Contains(text, verifPassword), "C17: Linux: login password appears in "+name)
	}
	if isCompare {
		for _, l := range tr {
			vf.Assert(!verifLinuxIsChange(l), "C11: Linux: compare sent a change command")
		}
		vf.Cover("compare run checked")
		return
	}
	fp := vf.FixInt(sc.FaultPos)
	reached := fp >= 0 && fp < len(tr)
	if !reached {
		vf.Assert(r.rc == 0, "C09: Linux: clean dialogue but approve failed")
		return
	}
	vf.Cover("fault reached")
	faultLine := tr[fp]
	afterChange := fp > 0 && verifLinuxIsChange(tr[fp-1]) && faultLine == "echo $?"
	mustFail := kind == 3 || kind == 4 ||
		(verifLinuxIsChange(faultLine) && (kind == 0 || kind == 2)) ||
		(afterChange && kind == 1)
	if faultLine == "exit" {
		mustFail = false
	}
	if mustFail {
		vf.Cover("failure injected")
		vf.Assert(r.rc != 0, "C09: Linux: device-side failure but exit status 0")
		vf.Assert(strings.Contains(r.stderr, "ERROR>>>"), "C09: Linux: device-side failure without ERROR>>> message")
		rest := tr[fp+1:]
		// second half of a joined route replacement is already on the wire
		if strings.HasPrefix(faultLine, "ip route del ") && len(rest) > 0 && strings.HasPrefix(rest[0], "ip route add ") {
			rest = rest[1:]
		}
		for _, l := range rest {
			vf.Assert(!verifLinuxIsChange(l), "C09: Linux: change command sent after a device-side failure")
		}
	}
}
