package device

// Dialogue harness for SSH devices (ASA): the real ApproveOrCompare talks to
// a device simulator; one fault of a symbolic kind is injected at a symbolic
// position of the dialogue.  Decides C06, C09, C11, C17 for ASA.

import (
	"encoding/json"
	"os"
	"path"
	"regexp"
	"strings"

	"github.com/hknutzen/Netspoc-Approve/go/pkg/asa"
	"github.com/hknutzen/Netspoc-Approve/go/pkg/program"
	"github.com/hknutzen/Netspoc-Approve/go/pkg/vf"
	"github.com/hknutzen/Netspoc-Approve/go/pkg/vfsim"
)

const verifPassword = "Se&cr/et+1="

var verifASADevice = `interface Ethernet0/0
 nameif inside
route inside 0.0.0.0 0.0.0.0 10.1.2.3
access-list inside extended permit ip host 1.1.1.1 any
access-list inside extended permit ip host 2.2.2.2 any
access-list inside extended permit ip host 3.3.3.3 any
access-list inside extended permit ip host 4.4.4.4 any
access-group inside in interface inside
`

var verifASASpoc = `route inside 0.0.0.0 0.0.0.0 10.1.2.4
access-list inside extended permit ip host 4.4.4.4 any
access-list inside extended permit ip host 1.1.1.1 any
access-list inside extended permit ip host 2.2.2.2 any
access-list inside extended permit ip host 5.5.5.5 any
access-group inside in interface inside
`

func verifASAScenario(name, hostname string, banner bool, devConf string) *vfsim.Scenario {
	pre := "Are you sure you want to continue connecting (yes/no)?<!>\n"
	if banner {
		pre += "***********************************************************\n" +
			"**                 managed by NetSPoC                    **\n" +
			"***********************************************************\n"
	}
	pre += "netspoc@10.1.2.3's password: <!noecho>\n" +
		"Type help or '?' for a list of available commands.\n" + name + ">"
	return &vfsim.Scenario{
		Name:     name,
		Preamble: pre,
		Cmds: map[string]string{
			"enable":        "Password: <!noecho>\n",
			"sh pager":      "pager lines 24\n\n",
			"sh term":       "\nWidth = 80, no monitor\nterminal interactive\n",
			"show hostname": hostname + "\n",
			"sh ver":        "Cisco Adaptive Security Appliance Software Version 9.4(4)5\nHardware:   ASA5550, 4096 MB RAM\n",
			"write term":    devConf,
			"write memory":  "Building configuration...\nCryptochecksum: abcdef01 44444444 12345678 98765432\n\n123456 bytes copied in 0.330 secs\n[OK]\n",
		},
		FaultPos: -1,
	}
}

// expected change lines (each half of a joined command on its own line)
func verifExpectedChanges(devConf, spoc string) []string {
	s := asa.Setup()
	c1, err := s.ParseConfig([]byte(devConf), "<device>")
	if err != nil {
		panic(err)
	}
	c2, err := s.ParseConfig([]byte(spoc), "router")
	if err != nil {
		panic(err)
	}
	if err := s.GetChanges(c1, c2); err != nil {
		panic(err)
	}
	var l []string
	for _, c := range s.Changes {
		l = append(l, strings.Split(c, "\n")...)
	}
	return l
}

// joined change lines of the expected script
func verifJoined(devConf, spoc string) []string {
	s := asa.Setup()
	c1, _ := s.ParseConfig([]byte(devConf), "<device>")
	c2, _ := s.ParseConfig([]byte(spoc), "router")
	s.GetChanges(c1, c2)
	var l []string
	for _, c := range s.Changes {
		if strings.Contains(c, "\n") {
			l = append(l, c)
		}
	}
	return l
}

type verifRun struct {
	base, logDir string
	dev          *vfsim.Device
	traceFile    string
	rc           int
	stderr       string
	stdout       string
}

func (r *verifRun) transcript() []string {
	if vf.Symbolic() {
		return r.dev.Sent
	}
	data, _ := os.ReadFile(r.traceFile)
	if len(data) == 0 {
		return nil
	}
	return strings.Split(strings.TrimSuffix(string(data), "\n"), "\n")
}

func (r *verifRun) sinkTexts() map[string]string {
	m := map[string]string{"stderr": r.stderr, "stdout": r.stdout}
	for _, ext := range []string{".login", ".config", ".change", ".cmp"} {
		if d, err := os.ReadFile(path.Join(r.logDir, "router"+ext)); err == nil {
			m[ext] = string(d)
		}
	}
	return m
}

func verifRunASA(sc *vfsim.Scenario, isCompare bool, checkBanner bool, spoc string) *verifRun {
	return verifRunDev("ASA", sc, isCompare, checkBanner, spoc)
}

func verifRunDev(model string, sc *vfsim.Scenario, isCompare bool, checkBanner bool, spoc string) *verifRun {
	r := &verifRun{}
	r.base = vf.TempDir()
	r.logDir = path.Join(r.base, "log")
	codeDir := path.Join(r.base, "code")
	os.MkdirAll(codeDir, 0755)
	os.MkdirAll(r.logDir, 0755)
	os.WriteFile(path.Join(codeDir, "router"), []byte(spoc), 0644)
	os.WriteFile(path.Join(codeDir, "router.info"), []byte(`{"model":"`+model+`","name_list":["router"],"ip_list":["10.1.13.33"]}`), 0644)
	os.WriteFile(path.Join(r.base, "credentials"), []byte("* netspoc "+verifPassword+"\n"), 0644)
	cfg := &program.Config{BaseDir: r.base, Timeout: 1, LoginTimeout: 1}
	if checkBanner {
		cfg.CheckBanner = regexp.MustCompile("NetSPoC")
	}
	// The log directory is optional (drc without -L).
	logArg := r.logDir
	if vf.Bool("run without log directory") {
		logArg = ""
		vf.Cover("run without log directory")
	}
	r.dev = vfsim.NewDevice(sc)
	if vf.Symbolic() {
		vf.Hook("expect.send", r.dev.Send)
		vf.Hook("expect.expect", r.dev.Expect)
	} else {
		scf := path.Join(r.base, "scenario.json")
		r.traceFile = path.Join(r.base, "trace")
		data, _ := json.Marshal(sc)
		os.WriteFile(scf, data, 0644)
		vf.Note("scenario:", string(data))
		os.Setenv("SIMULATE_ROUTER", "/verif/bin/simdev "+scf+" "+r.traceFile)
	}
	r.stderr = vf.CaptureStderr(func() {
		r.stdout = vf.CaptureStdout(func() {
			r.rc = ApproveOrCompare(isCompare, path.Join(codeDir, "router"), cfg, logArg, "", false)
		})
	})
	return r
}

var verifFaultTexts = []string{
	"",
	"ERROR: % Invalid input detected at '^' marker.\n",
	"something unexpected\n",
	"WARNING: some condition\n",
	"INFO: some information\n",
}

// VerifDialogueASA: one symbolic fault at a symbolic position.
func VerifDialogueASA() {
	changes := verifExpectedChanges(verifASADevice, verifASASpoc)
	sc := verifASAScenario("router", "router", true, verifASADevice)
	verifFaultDialogue("ASA", sc, verifASASpoc, changes, verifJoined(verifASADevice, verifASASpoc), 22+len(changes))
}

// verifFaultDialogue runs approve or compare against the simulator with one
// fault of symbolic kind at a symbolic position and checks C09 / C11 / C17.
func verifFaultDialogue(model string, sc *vfsim.Scenario, spoc string, changes, joined []string, maxPos int) {
	isCompare := vf.Param("mode", "approve") == "compare"
	vf.Assumption("device simulator: line oriented, complete reply available when the tool reads (no chunked arrival), password input not echoed, faults: extra output (error text / unexpected text / WARNING / INFO), garbled echo, no answer, connection closed, 'write memory' without [OK]")
	kind := VerifPickFault(sc, maxPos)
	r := verifRunDev(model, sc, isCompare, true, spoc)
	tr := r.transcript()
	vf.Note("rc=", r.rc, "transcript:", strings.Join(tr, " | "))
	vf.Note("stderr:", r.stderr)

	isChange := func(l string) bool {
		for _, c := range changes {
			if c == l {
				return true
			}
		}
		return false
	}
	// position of the faulted line within the transcript
	fp := vf.FixInt(sc.FaultPos)
	reached := fp >= 0 && fp < len(tr)
	faultLine := ""
	if reached {
		faultLine = tr[fp]
		vf.Cover("fault reached")
	}
	// C17: the password never reaches a sink
	for name, text := range r.sinkTexts() {
		vf.Assert(!strings.Contains(text, verifPassword), "C17: "+model+": login password appears in "+name)
	}
	if isCompare {
		// C11: compare never changes the device
		for i, l := range tr {
			vf.Assert(!isChange(l), "C11: "+model+": compare sent a change command")
			vf.Assert(l != "write memory", "C11: "+model+": compare saved the configuration")
			vf.Assert(!strings.HasPrefix(l, "reload") && !strings.HasPrefix(l, "do reload"), "C11: "+model+": compare touched the reload timer")
			if l == "configure terminal" {
				vf.Assert(model == "ASA", "C11: "+model+": compare entered configuration mode")
				ok := i+2 < len(tr) && tr[i+1] == "terminal width 511" && tr[i+2] == "end"
				// a fault may cut the triple short; then nothing but session clean-up may follow
				if !ok {
					for _, x := range tr[i+1:] {
						vf.Assert(x == "terminal width 511" || x == "end" || x == "exit", "C11: ASA: configuration mode entered for something else than the terminal width setting")
					}
				}
			}
		}
		vf.Cover("compare run checked")
		return
	}
	// approve: C09
	mustFail := VerifMustFail(model, kind, fp, tr, changes)
	if mustFail {
		vf.Cover("failure injected")
		vf.Assert(r.rc != 0, "C09: "+model+": device-side failure but exit status 0")
		vf.Assert(strings.Contains(r.stderr, "ERROR>>>"), "C09: "+model+": device-side failure without ERROR>>> message")
		rest := tr[fp+1:]
		// both halves of a joined line are sent in one packet: the second
		// half is on the wire before the answer to the first one can be read
		for _, c := range joined {
			a, b, _ := strings.Cut(c, "\n")
			if faultLine == a && len(rest) > 0 && rest[0] == b {
				rest = rest[1:]
			}
		}
		for _, l := range rest {
			vf.Assert(!isChange(l), "C09: "+model+": change command sent after a device-side failure")
			vf.Assert(l != "write memory", "C09: "+model+": configuration saved after a device-side failure")
		}
	}
	if r.rc == 0 {
		vf.Cover("approve succeeded")
		// OK only if every command was sent and the save was confirmed
		pos := 0
		for _, l := range tr {
			if pos < len(changes) && l == changes[pos] {
				pos++
			}
		}
		// (a fault that corrupts the retrieved configuration changes the script itself)
		corrupted := reached && (faultLine == "sh run" || faultLine == "write term")
		vf.Assert(corrupted || pos == len(changes), "C09: "+model+": exit status 0 although not all change commands were sent")
		saved := false
		for _, l := range tr {
			if l == "write memory" {
				saved = true
			}
		}
		vf.Assert(saved, "C09: "+model+": exit status 0 without 'write memory'")
		vf.Assert(!(reached && faultLine == "write memory" && kind == 7), "C09: "+model+": exit status 0 although 'write memory' was not confirmed with [OK]")
	}
}

// VerifUnmanagedASA: C06 for ASA: wrong hostname, missing banner, banner check
// not configured.
func VerifUnmanagedASA() {
	changes := verifExpectedChanges(verifASADevice, verifASASpoc)
	verifUnmanaged("ASA", changes, verifASASpoc, func(host string, banner bool) *vfsim.Scenario {
		return verifASAScenario("router", host, banner, verifASADevice)
	})
}

// Hostnames a reached device may report: the expected one, an unrelated
// one, the expected one as proper prefix / suffix (also with - or . as
// separator), different case.
var verifHostnames = []string{"router", "other", "router2", "lab-router", "Router", "rout", "router-b", "router.lab"}

func verifUnmanaged(model string, changes []string, spoc string, mk func(host string, banner bool) *vfsim.Scenario) {
	host := vf.FixString(vf.Pick("reportedHostname", verifHostnames))
	banner := vf.Bool("bannerPresent")
	checkBanner := vf.Bool("checkbannerConfigured")
	sc := mk(host, banner)
	r := verifRunDev(model, sc, false, checkBanner, spoc)
	tr := r.transcript()
	vf.Note("rc=", r.rc, "transcript:", strings.Join(tr, " | "))
	vf.Note("stderr:", r.stderr)
	isChange := func(l string) bool {
		for _, c := range changes {
			if c == l {
				return true
			}
		}
		return false
	}
	wrongHost := host != "router"
	unmanaged := wrongHost || (checkBanner && !banner)
	if unmanaged {
		vf.Cover("wrong or unmanaged device")
		for i, l := range tr {
			vf.Assert(!isChange(l), "C06: "+model+": change command sent to a wrong or unmanaged device")
			vf.Assert(l != "write memory", "C06: "+model+": configuration saved on a wrong or unmanaged device")
			vf.Assert(!strings.HasPrefix(l, "reload in"), "C06: "+model+": reload scheduled on a wrong or unmanaged device")
			if l == "configure terminal" {
				vf.Assert(model == "ASA" && i+2 < len(tr) && tr[i+1] == "terminal width 511" && tr[i+2] == "end",
					"C06: "+model+": configuration mode entered on a wrong or unmanaged device")
			}
		}
		vf.Assert(r.rc != 0, "C06: "+model+": exit status 0 for a wrong or unmanaged device")
		vf.Assert(strings.Contains(r.stderr, "ERROR>>>"), "C06: "+model+": no diagnostic for a wrong or unmanaged device")
	} else {
		vf.Cover("managed device")
		if !checkBanner {
			vf.Cover("banner check not configured")
		}
		vf.Assert(r.rc == 0, "C06: "+model+": approve of a managed device failed")
		pos := 0
		for _, l := range tr {
			if pos < len(changes) && l == changes[pos] {
				pos++
			}
		}
		vf.Assert(pos == len(changes), "C06: "+model+": changes not sent to a managed device")
	}
	for name, text := range r.sinkTexts() {
		vf.Assert(!strings.Contains(text, verifPassword), "C17: "+model+": login password appears in "+name)
	}
}

// VerifPickFault chooses one fault of symbolic kind at a symbolic position.
func VerifPickFault(sc *vfsim.Scenario, maxPos int) int {
	sc.FaultPos = vf.Int("faultPos", -1, maxPos)
	kind := vf.FixInt(vf.Int("faultKind", 0, 7))
	switch kind {
	case 0, 1, 2, 3:
		sc.FaultKind = vfsim.FaultOutput
		sc.FaultText = verifFaultTexts[kind+1]
	case 4:
		sc.FaultKind = vfsim.FaultGarble
	case 5:
		sc.FaultKind = vfsim.FaultStall
	case 6:
		sc.FaultKind = vfsim.FaultClose
	case 7:
		sc.FaultKind = vfsim.FaultReplace
		sc.FaultText = "Building configuration...\nfailed\n"
	}
	return kind
}

// VerifMustFail: does the injected fault (kind at transcript position fp)
// count as a device-side failure in the sense of C09?
func VerifMustFail(model string, kind, fp int, tr, changes []string) bool {
	isChange := func(l string) bool {
		for _, c := range changes {
			if c == l {
				return true
			}
		}
		return false
	}
	reached := fp >= 0 && fp < len(tr)
	if !reached {
		return false
	}
	faultLine := tr[fp]
	hard := kind == 5 || kind == 6 // stall, close: a failure at every position
	// the change phase: from the 'configure terminal' in front of the first
	// change command (ASA: the second one, the first sets the terminal width;
	// IOS: the one behind 'reload in') up to the next 'end'
	c2, e := -1, -1
	for i, l := range tr {
		if l == "configure terminal" && (i+1 >= len(tr) || (tr[i+1] != "terminal width 511" && tr[i+1] != "no logging console")) {
			c2 = i
		}
		if c2 >= 0 && e < 0 && i > c2 && l == "end" {
			e = i
		}
	}
	inChangePhase := c2 >= 0 && fp >= c2 && (e < 0 || fp <= e)
	rejecting := kind == 0 || kind == 1 || kind == 4 // error text, unexpected text, garbled echo
	// ASA checks the output of 'configure terminal' and 'end' too; IOS sends
	// them with SendCmd (any output accepted)
	checkedLine := isChange(faultLine) || (model == "ASA" && inChangePhase)
	return (hard && faultLine != "exit") || (checkedLine && rejecting) || (faultLine == "write memory" && kind == 7)
}

// exported pieces for the do-approve harness
func VerifASAParts() (sc *vfsim.Scenario, spoc string, changes []string) {
	return verifASAScenario("router", "router", true, verifASADevice), verifASASpoc, verifExpectedChanges(verifASADevice, verifASASpoc)
}

const VerifPassword = verifPassword
