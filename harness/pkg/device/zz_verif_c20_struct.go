package device

// C20, structurally damaged NSX (JSON) and PAN-OS (XML) inputs: valid
// syntax, but nulls, empty lists, missing containers, self references.
// One solver-chosen variant replaces the device file, the Netspoc code or
// the raw file of a small valid case; file compare must end with exit status
// 0 or 1, never with a Go panic, and must not hang.

import (
	"os"
	"path"

	"github.com/hknutzen/Netspoc-Approve/go/pkg/vf"
)

const verifNsxOK = `{"groups":[{"id":"Netspoc-g1","expression":[{"id":"id","resource_type":"IPAddressExpression","ip_addresses":["10.1.1.10"]}]}],
"services":[{"id":"Netspoc-tcp_80","service_entries":[{"id":"id","resource_type":"L4PortSetServiceEntry","l4_protocol":"TCP","source_ports":[],"destination_ports":["80"]}]}],
"policies":[{"id":"Netspoc-v1","resource_type":"GatewayPolicy","rules":[
{"resource_type":"Rule","id":"r1","scope":["/infra/tier-0s/v1"],"direction":"OUT","ip_protocol":"IPV4","sequence_number":20,"action":"ALLOW","source_groups":["/infra/domains/default/groups/Netspoc-g1"],"destination_groups":["10.1.2.40"],"services":["/infra/services/Netspoc-tcp_80"]}]}]}`

var verifNsxBad = []string{
	`{}`,
	`null`,
	`[]`,
	`{"groups":null,"services":null,"policies":null}`,
	`{"groups":[null]}`,
	`{"services":[null]}`,
	`{"policies":[null]}`,
	`{"policies":[{"id":"Netspoc-v1","rules":[null]}]}`,
	`{"policies":[{"id":"Netspoc-v1","rules":null}]}`,
	`{"groups":[{"id":"Netspoc-g1","expression":[null]}]}`,
	`{"groups":[{"id":"Netspoc-g1","expression":[]}]}`,
	`{"groups":[{"id":"Netspoc-g1"}]}`,
	`{"groups":[{"id":"Netspoc-g1","expression":[{"id":"id","resource_type":"IPAddressExpression","ip_addresses":[]}]}]}`,
	`{"groups":[{"id":"Netspoc-g1","expression":[{"id":"id","resource_type":"IPAddressExpression","ip_addresses":null}]}]}`,
	`{"services":[{"id":"Netspoc-tcp_80","service_entries":[]}]}`,
	`{"services":[{"id":"Netspoc-tcp_80","service_entries":[null]}]}`,
	`{"policies":[{"id":"Netspoc-v1","rules":[{"id":"r1","source_groups":[],"destination_groups":[],"services":[]}]}]}`,
	`{"policies":[{"id":"Netspoc-v1","rules":[{"id":"r1"}]}]}`,
	`{"policies":[{"id":"Netspoc-v1","rules":[{"id":"r1","source_groups":["a","b"],"destination_groups":["c"],"services":["d"]}]}]}`,
	`{"policies":[{"rules":[{"id":"r1","source_groups":["10.1.1.1"],"destination_groups":["10.1.1.2"],"services":["ANY"]}]}]}`,
	`{"policies":[{"id":"Netspoc-v1","rules":[{"id":"r1","source_groups":["/infra/domains/default/groups/Netspoc-g1"],"destination_groups":["/infra/domains/default/groups/Netspoc-g9"],"services":["/infra/services/Netspoc-x"],"sequence_number":"x"}]}]}`,
	`{"groups":[{"id":"Netspoc-g1","expression":[{"ip_addresses":["10.1.1.10"]}]},{"id":"Netspoc-g1","expression":[{"ip_addresses":["10.1.1.20"]}]}]}`,
}

const verifPanHead = `<config><devices><entry name="localhost.localdomain"><vsys><entry name="vsys1">`
const verifPanTail = `</entry></vsys></entry></devices></config>`
const verifPanRule = `<rulebase><security><rules><entry name="r1"><action>allow</action><from><member>z1</member></from><to><member>z2</member></to><source><member>g1</member></source><destination><member>any</member></destination><service><member>tcp 80</member></service><application><member>any</member></application><rule-type>interzone</rule-type></entry></rules></security></rulebase>`
const verifPanObjs = `<address><entry name="IP_10.1.1.10"><ip-netmask>10.1.1.10/32</ip-netmask></entry></address><address-group><entry name="g1"><static><member>IP_10.1.1.10</member></static></entry></address-group><service><entry name="tcp 80"><protocol><tcp><port>80</port></tcp></protocol></entry></service>`

var verifPanOK = verifPanHead + verifPanRule + verifPanObjs + verifPanTail

var verifPanBad = []string{
	`<config></config>`,
	`<config><devices></devices></config>`,
	`<config><devices><entry name="localhost.localdomain"></entry></devices></config>`,
	`<config><devices><entry name="localhost.localdomain"><vsys></vsys></entry></devices></config>`,
	`<config><devices><entry name="localhost.localdomain"><vsys><entry name="vsys1"></entry></vsys></entry></devices></config>`,
	`<config><devices><entry><vsys><entry>` + verifPanRule + verifPanObjs + verifPanTail,
	`<config><devices><entry name="other"><vsys><entry name="vsys1">` + verifPanRule + verifPanObjs + verifPanTail,
	verifPanHead + verifPanRule + verifPanTail,
	verifPanHead + `<rulebase></rulebase>` + verifPanObjs + verifPanTail,
	verifPanHead + `<rulebase><security><rules><entry name="r1"></entry></rules></security></rulebase>` + verifPanTail,
	verifPanHead + `<rulebase><security><rules><entry name="r1"><source></source><destination></destination><service></service></entry></rules></security></rulebase>` + verifPanTail,
	verifPanHead + verifPanRule + `<address-group><entry name="g1"><static><member>g1</member></static></entry></address-group><service><entry name="tcp 80"><protocol><tcp><port>80</port></tcp></protocol></entry></service>` + verifPanTail,
	verifPanHead + verifPanRule + `<address-group><entry name="g1"><static><member>g2</member></static></entry><entry name="g2"><static><member>g1</member></static></entry></address-group>` + verifPanTail,
	verifPanHead + verifPanRule + `<address-group><entry name="g1"><static></static></entry></address-group>` + verifPanTail,
	verifPanHead + verifPanRule + `<address-group><entry name="g1"></entry></address-group>` + verifPanTail,
	verifPanHead + verifPanRule + `<address><entry name="IP_10.1.1.10"></entry></address><address-group><entry name="g1"><static><member>IP_10.1.1.10</member></static></entry></address-group><service><entry name="tcp 80"></entry></service>` + verifPanTail,
	verifPanHead + verifPanRule + verifPanObjs + `</entry><entry name="vsys1">` + verifPanRule + verifPanObjs + verifPanTail,
	`<response status="success"><result></result></response>`,
	`<other/>`,
}

func VerifGarbageStruct() {
	vf.Assumption("structural damage (valid JSON / XML): NSX 22 variants (null / empty / missing groups, expressions, address lists, service entries, rules, rule lists with 0 or 2 elements, undefined references, duplicate ids), PAN-OS 19 variants (missing devices / vsys / rulebase / objects, unnamed entries, empty rule, self-referencing and mutually referencing address-groups, empty groups, duplicate vsys, foreign root element); placed as device file, Netspoc code or raw file beside a valid counterpart")
	base := vf.TempDir()
	defer os.RemoveAll(base)
	codeDir := path.Join(base, "code")
	os.MkdirAll(codeDir, 0755)
	code := path.Join(codeDir, "router")
	model := vf.FixString(vf.Pick("model", []string{"NSX", "PAN-OS"}))
	ok, bad := verifNsxOK, verifNsxBad
	if model == "PAN-OS" {
		ok, bad = verifPanOK, verifPanBad
	}
	v := vf.FixInt(vf.Int("variant", 0, len(bad)-1))
	vf.Assume(v < len(bad))
	where := vf.FixInt(vf.Int("position", 0, 2)) // 0 device, 1 code, 2 raw
	dev, spoc := ok, ok
	switch where {
	case 0:
		dev = bad[v]
	case 1:
		spoc = bad[v]
	case 2:
		os.WriteFile(code+".raw", []byte(bad[v]), 0644)
	}
	os.WriteFile(path.Join(base, "device"), []byte(dev), 0644)
	os.WriteFile(code, []byte(spoc), 0644)
	os.WriteFile(code+".info", []byte(`{"model":"`+model+`","name_list":["router"],"ip_list":["10.1.13.33"]}`), 0644)
	vf.Note("model:", model, "position:", where, "variant:", bad[v])
	rc := -1
	errText := vf.CaptureStderr(func() {
		vf.CaptureStdout(func() {
			rc = CompareFiles(path.Join(base, "device"), code, true)
		})
	})
	vf.Note("rc=", rc, "stderr:", errText)
	if rc == 0 {
		vf.Cover("input accepted")
	} else {
		vf.Cover("input rejected with exit status 1")
	}
	vf.Assert(rc == 0 || rc == 1, "C20: exit status other than 0 or 1 for a structurally damaged input")
}

// VerifGarbageFile: the "empty / garbage files" members of the C20 family for
// all five device types and all argument positions.
func VerifGarbageFile() {
	vf.Assumption("empty and garbage files: empty, one blank line, binary bytes, an unbalanced brace / angle bracket, plain words, a lone quote; as device file, Netspoc code, raw file or IPv6 code of a small valid case of each of the five device types")
	base := vf.TempDir()
	defer os.RemoveAll(base)
	codeDir := path.Join(base, "code")
	os.MkdirAll(path.Join(codeDir, "ipv6"), 0755)
	code := path.Join(codeDir, "router")
	model := vf.FixString(vf.Pick("model", []string{"ASA", "IOS", "Linux", "NSX", "PAN-OS"}))
	ok := map[string]string{
		"ASA":    "access-list inside_in extended deny ip any4 any4\naccess-group inside_in in interface inside\n",
		"IOS":    "ip access-list extended e0_in\n deny ip any any\ninterface Ethernet0\n ip address 10.1.1.1 255.255.255.0\n ip access-group e0_in in\n",
		"Linux":  "ip route add 10.20.0.0/16 via 10.1.2.3\n*filter\n:INPUT DROP\n-A INPUT -j ACCEPT -s 10.1.1.1\nCOMMIT\n",
		"NSX":    verifNsxOK,
		"PAN-OS": verifPanOK,
	}[model]
	garbage := []string{"", "\n", "\x00\xff\xfe\x01binary", "}{", "<config", "some plain words here", "\"", "[APPEND]", "{\"groups\":", "<config><devices>"}
	v := vf.FixInt(vf.Int("variant", 0, len(garbage)-1))
	where := vf.FixInt(vf.Int("position", 0, 3)) // 0 device, 1 code, 2 raw, 3 ipv6 code
	dev, spoc := ok, ok
	switch where {
	case 0:
		dev = garbage[v]
	case 1:
		spoc = garbage[v]
	case 2:
		os.WriteFile(code+".raw", []byte(garbage[v]), 0644)
	case 3:
		os.WriteFile(path.Join(codeDir, "ipv6", "router"), []byte(garbage[v]), 0644)
	}
	os.WriteFile(path.Join(base, "device"), []byte(dev), 0644)
	os.WriteFile(code, []byte(spoc), 0644)
	os.WriteFile(code+".info", []byte(`{"model":"`+model+`","name_list":["router"],"ip_list":["10.1.13.33"]}`), 0644)
	vf.Note("model:", model, "position:", where, "content:", garbage[v])
	rc := -1
	errText := vf.CaptureStderr(func() {
		vf.CaptureStdout(func() {
			rc = CompareFiles(path.Join(base, "device"), code, true)
		})
	})
	vf.Note("rc=", rc, "stderr:", errText)
	if rc == 0 {
		vf.Cover("input accepted")
	} else {
		vf.Cover("input rejected with exit status 1")
	}
	vf.Assert(rc == 0 || rc == 1, "C20: exit status other than 0 or 1 for an empty or garbage file")
}
