package device

// NSX dialogue harness (HTTP/JSON): login (session token), listing of
// policies, services and groups (paged), change requests against a simulated
// policy API; one fault of symbolic kind at a symbolic request.
// Decides C07 (objects without the Netspoc prefix), C09, C11, C17 for NSX.

import (
	"io"
	"net/http"
	"net/http/httptest"
	"os"
	"path"
	"strings"

	"github.com/hknutzen/Netspoc-Approve/go/pkg/program"
	"github.com/hknutzen/Netspoc-Approve/go/pkg/vf"
)

const verifNsxToken = "tok3n+Zz/9=="

const verifNsxRule1 = `{"resource_type":"Rule","id":"r1","scope":["/infra/tier-0s/v1"],"direction":"OUT","ip_protocol":"IPV4","sequence_number":20,"action":"ALLOW","source_groups":["10.1.1.10"],"destination_groups":["10.1.2.30"],"services":["/infra/services/Netspoc-tcp_80"]}`

const verifNsxSvc80 = `{"id":"Netspoc-tcp_80","service_entries":[{"id":"id","resource_type":"L4PortSetServiceEntry","l4_protocol":"TCP","source_ports":[],"destination_ports":["80"]}]}`
const verifNsxSvc53 = `{"id":"Netspoc-udp_53","service_entries":[{"id":"id","resource_type":"L4PortSetServiceEntry","l4_protocol":"UDP","source_ports":[],"destination_ports":["53"]}]}`
const verifNsxSvcManual = `{"id":"HTTP","service_entries":[{"id":"id","resource_type":"L4PortSetServiceEntry","l4_protocol":"TCP","source_ports":[],"destination_ports":["8080"]}]}`

func verifNsxGroup(id string, addrs string) string {
	return `{"id":"` + id + `","expression":[{"id":"id","resource_type":"IPAddressExpression","ip_addresses":[` + addrs + `]}]}`
}

// target: r1 with another destination, new rule r2 with a group as source
var verifNsxSpoc = `{"groups":[` + verifNsxGroup("Netspoc-g2", `"10.1.1.10","10.1.1.20"`) + `],
"services":[` + verifNsxSvc80 + `],
"policies":[{"id":"Netspoc-v1","resource_type":"GatewayPolicy","rules":[
{"resource_type":"Rule","id":"r1","scope":["/infra/tier-0s/v1"],"direction":"OUT","ip_protocol":"IPV4","sequence_number":20,"action":"ALLOW","source_groups":["10.1.1.10"],"destination_groups":["10.1.2.40"],"services":["/infra/services/Netspoc-tcp_80"]},
{"resource_type":"Rule","id":"r2","scope":["/infra/tier-0s/v1"],"direction":"OUT","ip_protocol":"IPV4","sequence_number":30,"action":"ALLOW","source_groups":["/infra/domains/default/groups/Netspoc-g2"],"destination_groups":["10.1.2.40"],"services":["/infra/services/Netspoc-tcp_80"]}
]}]}
`

type verifNsxSim struct {
	faultPos  int
	faultKind int // 1 status 500 + text, 2 invalid JSON (GET only), 3 status 400 + JSON error, 4 transport error, 5 status 403, 6 reply cut off inside the body
	failKey   string
	reqs      []string // "METHOD uri"
	bodies    []string
}

const verifNsxP = "/policy/api/v1/infra"

func (s *verifNsxSim) respond(method, uri, body string) (int, string, string, string) {
	if i := strings.Index(uri, "://"); i >= 0 {
		if j := strings.Index(uri[i+3:], "/"); j >= 0 {
			uri = uri[i+3+j:]
		}
	}
	key := method + " " + uri
	if s.failKey != "" && key == s.failKey {
		return 0, "", "", "EOF"
	}
	idx := len(s.reqs)
	s.reqs = append(s.reqs, key)
	s.bodies = append(s.bodies, body)
	if idx == s.faultPos {
		switch s.faultKind {
		case 1:
			return 500, "device not ready", "", ""
		case 2:
			if method == "GET" {
				return 200, "invalid", "", ""
			}
			return 500, "invalid", "", ""
		case 3:
			return 400, `{"httpStatus":"BAD_REQUEST","error_code":500012,"error_message":"The path is invalid"}`, "", ""
		case 4:
			s.failKey = key
			return 0, "", "", "EOF"
		case 5:
			return 403, "forbidden", "", ""
		case 6:
			// status 200 and headers arrive, the connection drops inside the body
			return 200, `{"id": `, "", "BODY:unexpected EOF"
		}
	}
	switch {
	case method == "POST" && uri == "/api/session/create":
		return 200, "", "x-xsrf-token: " + verifNsxToken, ""
	case method != "GET":
		return 200, "", "", ""
	case uri == verifNsxP+"/domains/default/gateway-policies":
		return 200, `{"results":[{"id":"Netspoc-v1"},{"id":"Other-policy"}]}`, "", ""
	case uri == verifNsxP+"/domains/default/gateway-policies/Netspoc-v1":
		return 200, `{"id":"Netspoc-v1","resource_type":"GatewayPolicy","rules":[` + verifNsxRule1 + `]}`, "", ""
	case uri == verifNsxP+"/services?cursor=":
		return 200, `{"cursor":"0001","results":[` + verifNsxSvc80 + `,` + verifNsxSvcManual + `]}`, "", ""
	case uri == verifNsxP+"/services?cursor=0001":
		return 200, `{"results":[` + verifNsxSvc53 + `]}`, "", ""
	case uri == verifNsxP+"/domains/default/groups?cursor=":
		return 200, `{"results":[` + verifNsxGroup("manual-group", `"10.9.9.9"`) + `,` + verifNsxGroup("Netspoc-g1", `"10.1.1.30"`) + `]}`, "", ""
	}
	return 404, "404 page not found", "", ""
}

type verifNsxRun struct {
	base, logDir string
	rc           int
	stderr       string
	stdout       string
}

func (r *verifNsxRun) sinkTexts() map[string]string {
	m := map[string]string{"stderr": r.stderr, "stdout": r.stdout}
	for _, ext := range []string{".login", ".config", ".change", ".cmp"} {
		if d, err := os.ReadFile(path.Join(r.logDir, "router"+ext)); err == nil {
			m[ext] = string(d)
		}
	}
	return m
}

func verifRunNsx(sim *verifNsxSim, isCompare bool, withLog bool) *verifNsxRun {
	r := &verifNsxRun{}
	r.base = vf.TempDir()
	r.logDir = path.Join(r.base, "log")
	codeDir := path.Join(r.base, "code")
	os.MkdirAll(codeDir, 0755)
	os.MkdirAll(r.logDir, 0755)
	os.WriteFile(path.Join(codeDir, "router"), []byte(verifNsxSpoc), 0644)
	os.WriteFile(path.Join(codeDir, "router.info"), []byte(`{"model":"NSX","name_list":["router"],"ip_list":["10.1.13.33"]}`), 0644)
	os.WriteFile(path.Join(r.base, "credentials"), []byte("* admin "+verifPassword+"\n"), 0644)
	cfg := &program.Config{BaseDir: r.base, Timeout: 2, LoginTimeout: 2}
	logArg := r.logDir
	if !withLog {
		logArg = ""
	}
	if vf.Symbolic() {
		os.Setenv("SIMULATE_ROUTER", "https://sim.example")
		vf.Hook("http.do", sim.respond)
	} else {
		srv := httptest.NewTLSServer(http.HandlerFunc(func(w http.ResponseWriter, req *http.Request) {
			body, _ := io.ReadAll(req.Body)
			status, rbody, hdr, terr := sim.respond(req.Method, req.RequestURI, string(body))
			if strings.HasPrefix(terr, "BODY:") {
				// declare more than is sent: the server drops the connection
				w.Header().Set("Content-Length", "64")
				w.WriteHeader(status)
				w.Write([]byte(rbody))
				return
			}
			if terr != "" {
				if hj, ok := w.(http.Hijacker); ok {
					c, _, _ := hj.Hijack()
					c.Close()
					return
				}
			}
			if k, v, ok := strings.Cut(hdr, ": "); ok {
				w.Header().Set(k, v)
			}
			w.WriteHeader(status)
			w.Write([]byte(rbody))
		}))
		defer srv.Close()
		os.Setenv("SIMULATE_ROUTER", srv.URL)
	}
	r.stderr = vf.CaptureStderr(func() {
		r.stdout = vf.CaptureStdout(func() {
			r.rc = ApproveOrCompare(isCompare, path.Join(codeDir, "router"), cfg, logArg, "", false)
		})
	})
	return r
}

func verifNsxIsWrite(req string) bool {
	return !strings.HasPrefix(req, "GET ") && req != "POST /api/session/create"
}

func VerifDialogueNSX() {
	isCompare := vf.Param("mode", "approve") == "compare"
	vf.Assumption("NSX policy API simulator: session create (token in header x-xsrf-token), policy list and per-policy GET, paged service list, group list with objects with and without the Netspoc prefix; every write request answers 200; faults: status 500 with text, invalid JSON, status 400 with JSON error, transport error (connection closed, persists for net/http's retry), status 403, reply cut off inside the body (status 200, short body)")
	// reference: what a compare of this device reports (fault-free)
	ref := &verifNsxSim{faultPos: -1}
	rr := verifRunNsx(ref, true, true)
	cmp := rr.sinkTexts()[".cmp"]
	var expected []string
	for _, l := range strings.Split(cmp, "\n") {
		for _, m := range []string{"PUT ", "PATCH ", "POST ", "DELETE "} {
			if strings.HasPrefix(l, m) {
				expected = append(expected, l)
			}
		}
	}
	vf.Note("expected requests:", strings.Join(expected, " | "))
	for _, q := range ref.reqs {
		vf.Assert(!verifNsxIsWrite(q), "C11: NSX: compare sent a write request")
	}
	vf.Assert(rr.rc == 0 && len(expected) >= 3, "C09: NSX: fault-free compare failed or reports no change")

	sim := &verifNsxSim{}
	sim.faultPos = vf.FixInt(vf.Int("faultPos", -1, 14))
	sim.faultKind = vf.FixInt(vf.Int("faultKind", 1, 6))
	withLog := !vf.Bool("run without log directory")
	r := verifRunNsx(sim, isCompare, withLog)
	vf.Note("rc=", r.rc, "requests:", strings.Join(sim.reqs, " | "), "stderr:", r.stderr)
	reached := sim.faultPos >= 0 && sim.faultPos < len(sim.reqs)
	if reached && sim.faultKind == 6 && sim.reqs[sim.faultPos] == "POST /api/session/create" {
		// the login only needs status and headers; a cut body is no failure there
		reached = false
	}
	if reached {
		vf.Cover("fault reached")
	}
	// C17
	for name, text := range r.sinkTexts() {
		vf.Assert(!verifLeak(text, verifNsxToken), "C17: NSX: session token appears in "+name)
		vf.Assert(!verifLeak(text, verifPassword), "C17: NSX: login password appears in "+name)
	}
	// C07: nothing without the Netspoc prefix is written or deleted
	var writes []string
	for i, q := range sim.reqs {
		if !verifNsxIsWrite(q) {
			continue
		}
		writes = append(writes, q)
		u := q[strings.Index(q, " ")+1:]
		if k := strings.Index(u, "?"); k >= 0 {
			u = u[:k]
		}
		ok := false
		for _, pfx := range []string{verifNsxP + "/services/Netspoc", verifNsxP + "/domains/default/groups/Netspoc", verifNsxP + "/domains/default/gateway-policies/Netspoc"} {
			ok = ok || strings.HasPrefix(u, pfx)
		}
		vf.Assert(ok, "C07: NSX: write request addresses an object without the Netspoc prefix")
		for _, un := range []string{"manual-group", "Other-policy", "services/HTTP"} {
			vf.Assert(!strings.Contains(q, un) && !strings.Contains(sim.bodies[i], un), "C07: NSX: write request names an unmanaged object")
		}
		if reached && i > sim.faultPos {
			vf.Assert(false, "C09: NSX: write request sent after a device-side failure")
		}
	}
	if isCompare {
		vf.Assert(len(writes) == 0, "C11: NSX: compare sent a write request")
		vf.Cover("compare run checked")
		return
	}
	if reached {
		vf.Cover("failure injected")
		vf.Assert(r.rc != 0, "C09: NSX: device-side failure but exit status 0")
		vf.Assert(strings.Contains(r.stderr, "ERROR>>>"), "C09: NSX: device-side failure without ERROR>>> diagnostic")
	}
	if r.rc == 0 {
		vf.Cover("approve succeeded")
		vf.Assert(strings.Join(writes, "\n") == strings.Join(expected, "\n"), "C09: NSX: exit status 0 although the requests sent differ from the reported changes")
		vf.Assert(!reached, "C09: NSX: exit status 0 although a device-side failure occurred")
	}
}
