// Package vf is the harness API of the gosx symbolic executor.
//
// Under gosx every function of this package is intercepted by the engine
// (inputs become solver variables, Assert becomes a solver query).  The
// bodies below are the native twins used for replay: they read the values of
// a counterexample from the file named by VERIF_REPLAY, in call order.
package vf

import (
	"encoding/json"
	"fmt"
	"os"
	"os/exec"
	"syscall"
)

type input struct {
	Name  string
	Kind  string
	Value any
}

var (
	loaded  bool
	inputs  []input
	pos     int
	Failed  []string
	Covered = map[string]bool{}
)

func load() {
	if loaded {
		return
	}
	loaded = true
	data, err := os.ReadFile(os.Getenv("VERIF_REPLAY"))
	if err != nil {
		panic("vf: cannot read VERIF_REPLAY: " + err.Error())
	}
	if err := json.Unmarshal(data, &inputs); err != nil {
		panic("vf: bad replay file: " + err.Error())
	}
}

// Reset restarts a replay (native only).
func Reset() { pos = 0; Failed = nil }

func next(name string) any {
	load()
	if pos >= len(inputs) {
		panic("vf: replay exhausted at " + name)
	}
	in := inputs[pos]
	pos++
	if in.Name != name {
		panic("vf: replay mismatch: have " + in.Name + ", harness asks for " + name)
	}
	return in.Value
}

func num(v any) int64 {
	switch x := v.(type) {
	case float64:
		return int64(x)
	case bool:
		if x {
			return 1
		}
		return 0
	}
	panic(fmt.Sprintf("vf: not a number: %v", v))
}

// Int returns a fresh symbolic integer in [lo,hi].
func Int(name string, lo, hi int) int { return int(num(next(name))) }

// Bool returns a fresh symbolic boolean.
func Bool(name string) bool { return num(next(name)) != 0 }

// Pick returns a symbolic element of menu.
func Pick(name string, menu []string) string { return menu[int(num(next(name)))] }

// Int64 returns a fresh unconstrained 64 bit integer (bit-vector term).
func Int64(name string) int64 { return num(next(name)) }

// Assume ends the path if c is false.
func Assume(c bool) {
	if !c {
		panic("vf: assumption violated in replay")
	}
}

// Assert records a violation if c can be false.
func Assert(c bool, label string) {
	if !c {
		Failed = append(Failed, label)
		fmt.Println("VERIF-ASSERT-FAILED:", label)
	}
}

// Cover marks a situation as reached.
func Cover(label string) { Covered[label] = true }

// Note records a debugging note for the path.
func Note(args ...any) {
	if os.Getenv("VERIF_NOTES") != "" {
		fmt.Println(append([]any{"NOTE:"}, args...)...)
	}
}

// Assumption records a standing assumption of the harness in the evidence.
func Assumption(text string) {}

// Symbolic reports whether the harness runs under the symbolic executor.
func Symbolic() bool { return false }

// Param returns a harness parameter given on the gosx command line.
func Param(name, dflt string) string {
	if v := os.Getenv("VERIF_PARAM_" + name); v != "" {
		return v
	}
	return dflt
}

// FixString / FixInt force a symbolic value to be concrete (by forking).
func FixString(s string) string { return s }
func FixInt(i int) int          { return i }

// Ite* build an if-then-else value without forking the path.
func IteInt(c bool, a, b int) int {
	if c {
		return a
	}
	return b
}
func IteString(c bool, a, b string) string {
	if c {
		return a
	}
	return b
}
func IteBool(c bool, a, b bool) bool {
	if c {
		return a
	}
	return b
}
func And(a, b bool) bool { return a && b }
func Or(a, b bool) bool  { return a || b }

// MapOrder selects the map iteration schedule of the executor
// (0 insertion order, 1 reversed, 2 rotated by one).
func MapOrder(mode int) {}

// Hook registers a harness-side callback for an environment stub
// ("flock": func(fd, how int) bool, "now": func() int64, ...).
func Hook(name string, f any) {}

// CaptureStdout runs f and returns what it printed to os.Stdout.
func CaptureStdout(f func()) string {
	old := os.Stdout
	tmp, err := os.CreateTemp("", "vfout")
	if err != nil {
		panic(err)
	}
	defer os.Remove(tmp.Name())
	os.Stdout = tmp
	func() {
		defer func() { os.Stdout = old }()
		f()
	}()
	tmp.Close()
	data, _ := os.ReadFile(tmp.Name())
	return string(data)
}

// CaptureStderr runs f and returns what it printed to os.Stderr.
func CaptureStderr(f func()) string {
	old := os.Stderr
	tmp, err := os.CreateTemp("", "vferr")
	if err != nil {
		panic(err)
	}
	defer os.Remove(tmp.Name())
	os.Stderr = tmp
	func() {
		defer func() { os.Stderr = old }()
		f()
	}()
	tmp.Close()
	data, _ := os.ReadFile(tmp.Name())
	return string(data)
}

// TempDir returns a fresh scratch directory (virtual under the executor).
func TempDir() string {
	d, err := os.MkdirTemp("", "vfreplay")
	if err != nil {
		panic(err)
	}
	return d
}

// Bzip2 compresses file p to p.bz2 and removes p.  Under the executor the
// content is kept as is (round trip of bzip2 is assumed).
func Bzip2(p string) {
	if err := exec.Command("bzip2", p).Run(); err != nil {
		panic("vf: bzip2 " + p + ": " + err.Error())
	}
}

// SelectString returns menu[idx]; under the executor idx may be symbolic and
// the result is a table over the same selector (no fork).
func SelectString(idx int, menu []string) string { return menu[idx] }

// SelectInt returns menu[idx] (see SelectString).
func SelectInt(idx int, menu []int) int { return menu[idx] }

// SelectBool returns menu[idx] (see SelectString).
func SelectBool(idx int, menu []bool) bool { return menu[idx] }

// LookupString returns the index of s in menu or -1 (leaf-wise, no fork).
func LookupString(menu []string, s string) int {
	for i, m := range menu {
		if m == s {
			return i
		}
	}
	return -1
}

// TermInt / TermBool hand a symbolic value to the solver as a term so that
// further If-then-else / And / Or combinations stay linear in size.
func TermInt(x int) int    { return x }
func TermBool(b bool) bool { return b }

// Not is boolean negation without a branch.
func Not(a bool) bool { return !a }

// EqInt / EqString compare without a branch.
func EqInt(a, b int) bool       { return a == b }
func EqString(a, b string) bool { return a == b }

// TryLock reports whether nobody holds an exclusive flock on file p.
func TryLock(p string) bool {
	fh, err := os.OpenFile(p, os.O_CREATE|os.O_RDONLY, 0644)
	if err != nil {
		return true
	}
	defer fh.Close()
	if err := syscall.Flock(int(fh.Fd()), syscall.LOCK_EX|syscall.LOCK_NB); err != nil {
		return false
	}
	syscall.Flock(int(fh.Fd()), syscall.LOCK_UN)
	return true
}

var heldLocks []*os.File

// HoldLock takes an exclusive flock on p and keeps it (another session
// holding the device).
func HoldLock(p string) {
	fh, err := os.OpenFile(p, os.O_CREATE|os.O_RDONLY, 0644)
	if err != nil {
		panic(err)
	}
	if err := syscall.Flock(int(fh.Fd()), syscall.LOCK_EX|syscall.LOCK_NB); err != nil {
		panic(err)
	}
	heldLocks = append(heldLocks, fh)
}
