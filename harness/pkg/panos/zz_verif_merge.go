package panos

// C18 harness for PAN-OS: rules of the Netspoc part, the IPv6 part and the
// raw part (with and without <APPEND/>) are merged into one rulebase; every
// rule exactly once, order inside each part preserved, unmarked raw rules
// in front of all Netspoc rules, <APPEND/> rules behind all Netspoc rules;
// addresses, address-groups and services of all parts are kept.

import (
	"strconv"

	"github.com/hknutzen/Netspoc-Approve/go/pkg/vf"
)

func verifMergeRules(t string, cnt int, appendFrom int) []*panRule {
	var l []*panRule
	for i := 0; i < cnt; i++ {
		r := &panRule{Name: t + strconv.Itoa(i+1), Action: vf.Pick(t+strconv.Itoa(i)+".action", []string{"allow", "drop"}),
			From: []string{"any"}, To: []string{"any"}, Application: []string{"any"}}
		r.Source = []string{"any"}
		r.Destination = []string{"any"}
		r.Service = []string{"any"}
		if i >= appendFrom {
			r.Append = &struct{}{}
		}
		l = append(l, r)
	}
	return l
}

func verifMergeConf(rules []*panRule, t string, withVsys bool) *PanConfig {
	if !withVsys {
		return &PanConfig{}
	}
	v := &panVsys{Name: "vsys1", Rules: rules,
		Addresses:     []*panAddress{{Name: "IP_" + t, IpNetmask: "10.1.1.1/32"}},
		AddressGroups: []*panAddressGroup{{Name: "g_" + t, Members: []string{"IP_" + t}}},
		Services:      []*panService{verifSvc("tcp_"+t, "80")},
	}
	return &PanConfig{Devices: &panDevices{Entries: []*panDevice{{Name: "localhost.localdomain", Vsys: []*panVsys{v}}}}}
}

func VerifMergePAN() {
	N, _ := strconv.Atoi(vf.Param("N", "2"))
	vf.Assumption("PAN-OS merge: one vsys; Netspoc part with 0..N rules (or no vsys at all), raw part with 0..N rules of which a solver-chosen suffix carries <APPEND/>; actions solver-chosen; one address, address-group and service per part")
	n := vf.Int("n", 0, N)
	m := vf.Int("m", 0, N)
	cut := vf.Int("appendFrom", 0, m)
	spoc := verifMergeRules("r", n, n+1)
	raw := verifMergeRules("raw", m, cut)
	var rawTop, rawApp []*panRule
	for i, r := range raw {
		if i < cut {
			rawTop = append(rawTop, r)
		} else {
			rawApp = append(rawApp, r)
		}
	}
	if len(rawTop) >= 2 {
		vf.Cover("two raw rules in front")
	}
	if len(rawApp) >= 1 {
		vf.Cover("rule with APPEND")
	}
	spocHasVsys := n > 0 || vf.Bool("spocHasEmptyVsys")
	c1 := verifMergeConf(spoc, "spoc", spocHasVsys)
	c2 := verifMergeConf(raw, "raw", true)
	res := c1.MergeSpoc(c2).(*PanConfig)
	if res.Devices == nil || len(res.Devices.Entries) == 0 || len(res.Devices.Entries[0].Vsys) != 1 {
		vf.Assert(false, "C18: PAN-OS: merged configuration has no vsys")
		return
	}
	got := res.Devices.Entries[0].Vsys[0]
	var want []*panRule
	want = append(want, rawTop...)
	want = append(want, spoc...)
	want = append(want, rawApp...)
	vf.Assert(len(got.Rules) == len(want), "C18: PAN-OS: a rule of one part is missing or duplicated in the merged rulebase")
	for i, r := range want {
		if i < len(got.Rules) {
			vf.Assert(got.Rules[i] == r, "C18: PAN-OS: merged rulebase is not <raw rules> <Netspoc rules> <APPEND rules> in the order of the parts")
			vf.Assert(got.Rules[i].Append == nil, "C18: PAN-OS: artificial APPEND attribute left in merged rule")
		}
	}
	names := func(v *panVsys) (int, int, int) { return len(v.Addresses), len(v.AddressGroups), len(v.Services) }
	a, g, s := names(got)
	exp := 1
	if spocHasVsys {
		exp = 2
	}
	vf.Assert(a == exp && g == exp && s == exp, "C18: PAN-OS: addresses, address-groups or services of a part are missing after the merge")
}
