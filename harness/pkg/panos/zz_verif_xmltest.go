package panos

import (
	"encoding/xml"

	"github.com/hknutzen/Netspoc-Approve/go/pkg/vf"
)

// VerifXMLRoundTrip: self-test of the xml stub on concrete values.
func VerifXMLRoundTrip() {
	s := verifSvc("tcp 80", "80")
	e := printXML(s)
	vf.Note("printXML:", verifUnesc(e))
	t := &panService{}
	err := xml.Unmarshal(verifWrap(verifUnesc(e)), t)
	vf.Note("err:", err, "name:", t.Name, "tcp nil:", t.Protocol.TCP == nil)
	vf.Assert(t.Protocol.TCP != nil && t.Protocol.TCP.Port == "80", "xml round trip of service")
	r := &panRule{Name: "r1", Action: "allow", From: []string{"any"}}
	r.Source = []string{"a", "b"}
	e2 := printXMLValue(r)
	vf.Note("printXMLValue:", verifUnesc(e2))
	r2 := &panRule{}
	err = xml.Unmarshal(verifWrap(verifUnesc(e2)), r2)
	vf.Note("err:", err, "action:", r2.Action, "src:", len(r2.Source))
	vf.Assert(r2.Action == "allow" && len(r2.Source) == 2, "xml round trip of rule")
	e3 := printXMLValue(r.panRuleSrc)
	vf.Note("printXMLValue src:", verifUnesc(e3))
	r3 := &panRule{}
	err = xml.Unmarshal(verifWrap(verifUnesc(e3)), r3)
	vf.Assert(len(r3.Source) == 2, "xml round trip of rule source")
}
