package panos

// C16 harness (PAN-OS): several vsys on the device and in the target; the
// change script, the list of "unmanaged" errors and the returned error must
// not depend on map iteration order.

import (
	"strconv"
	"strings"

	"github.com/hknutzen/Netspoc-Approve/go/pkg/vf"
)

func verifDetermVsys(name, display, action string, present bool) *panVsys {
	v := &panVsys{Name: name, DisplayName: display, Services: []*panService{verifSvc("tcp 80", "80")}}
	if present {
		r := &panRule{Name: "r1", Action: action, From: []string{"any"}, To: []string{"any"}, Application: []string{"any"}}
		r.Source = []string{"any"}
		r.Destination = []string{"any"}
		r.Service = []string{"tcp 80"}
		v.Rules = []*panRule{r}
	}
	return v
}

func VerifDeterminismPAN() {
	vf.Assumption("map iteration schedules explored by the executor: insertion order, reversed, rotated by one (native replay: 200 runs under Go's random map order)")
	vf.Assumption("PAN-OS: three vsys names; each is solver-chosen present on the device and / or in the target, with a rule that differs or not and a display-name with or without the NetSPoC marker")
	names := []string{"vsys1", "vsys2", "vsys3"}
	var devV, tgtV []*panVsys
	nChanged, nUnknown, nUnmarked := 0, 0, 0
	for _, n := range names {
		onDev := vf.Bool(n + ".onDevice")
		inTgt := vf.Bool(n + ".inTarget")
		marked := vf.Bool(n + ".marked")
		differs := vf.Bool(n + ".ruleDiffers")
		display := "customer"
		if marked {
			display = "netspoc " + n
		}
		if onDev {
			devV = append(devV, verifDetermVsys(n, display, "allow", true))
		}
		if inTgt {
			act := "allow"
			if differs {
				act = "drop"
			}
			tgtV = append(tgtV, verifDetermVsys(n, "", act, true))
		}
		if onDev && inTgt && differs {
			nChanged++
		}
		if onDev && inTgt && !marked {
			nUnmarked++
		}
		if !onDev && inTgt {
			nUnknown++
		}
	}
	if nChanged >= 2 {
		vf.Cover("two vsys with changes")
	}
	if nUnknown >= 2 {
		vf.Cover("two target vsys unknown on the device")
	}
	if nUnmarked >= 2 {
		vf.Cover("two vsys without the NetSPoC marker")
	}
	mk := func(l []*panVsys) *PanConfig {
		var c []*panVsys
		for _, v := range l {
			x := *v
			x.Rules = nil
			for _, r := range v.Rules {
				x.Rules = append(x.Rules, verifCopyRule(r))
			}
			c = append(c, &x)
		}
		return &PanConfig{Devices: &panDevices{Entries: []*panDevice{{Name: "localhost.localdomain", Vsys: c}}}}
	}
	runs := 3
	if !vf.Symbolic() {
		runs = 200
	}
	first := ""
	for r := 0; r < runs; r++ {
		vf.MapOrder(r % 3)
		s := &State{}
		err := s.GetChanges(mk(devV), mk(tgtV))
		var out []string
		if err != nil {
			out = append(out, "ERR: "+err.Error())
		}
		for _, c := range s.changes {
			out = append(out, c.Cmds...)
		}
		for _, e := range s.GetErrUnmanaged() {
			out = append(out, "UNMANAGED: "+e.Error())
		}
		res := strings.Join(out, "\n")
		if r == 0 {
			first = res
			vf.Note("first run:", res)
			continue
		}
		if res != first {
			vf.Note("run "+strconv.Itoa(r)+":", res)
		}
		vf.Assert(res == first, "C16: PAN-OS: change script, error or unmanaged list depends on map iteration order")
	}
	vf.MapOrder(0)
}
