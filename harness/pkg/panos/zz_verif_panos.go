package panos

// C03 harness (with C08 / C10 assertions for PAN-OS): one vsys, rules whose
// source is an address list or an address-group; the emitted XML-API
// commands are executed on a model of the candidate configuration.

import (
	"encoding/xml"
	"net/url"
	"strconv"
	"strings"

	"github.com/hknutzen/Netspoc-Approve/go/pkg/vf"
)

var verifAddrNames = []string{"IP_10.1.1.10", "IP_10.1.1.20", "IP_10.1.1.30"}
var verifSrcMax = 2

var verifAddrVals = []string{"10.1.1.10/32", "10.1.1.20/32", "10.1.1.30/32"}

type verifVsys struct {
	rules  []*panRule
	addrs  []*panAddress
	groups []*panAddressGroup
	svcs   []*panService
}

func verifAddr(i int) *panAddress {
	return &panAddress{Name: verifAddrNames[i], IpNetmask: verifAddrVals[i]}
}

func verifSvc(name, port string) *panService {
	return &panService{Name: name, Protocol: panProtocol{TCP: &panPort{Port: port}}}
}

// sorted distinct member names (diffConfig sorts them first)
func verifPickMembers(t string, max int) []string {
	k := vf.Int(t+".size", 1, max)
	prev := -1
	var l []string
	for j := 0; j < k; j++ {
		h := vf.Int(t+".m"+strconv.Itoa(j), 0, len(verifAddrNames)-1)
		vf.Assume(h > prev)
		prev = h
		l = append(l, vf.SelectString(h, verifAddrNames))
	}
	return l
}

// verifOneAction: all rules have action allow (cheaper runs with two groups)
var verifOneAction = false

func verifPickAction(rt string) string {
	if verifOneAction {
		return "allow"
	}
	return vf.Pick(rt+".action", []string{"allow", "drop"})
}

var verifGroupList = false

// verifOnlyGroups: every rule source is an address-group (cheaper runs with two groups)
var verifOnlyGroups = false

func verifMkVsys(t string, n int, grpNames []string, maxMembers int, svcPort string, rulePrefix string) *verifVsys {
	v := &verifVsys{}
	used := map[string]bool{}
	for i := 0; i < n; i++ {
		rt := t + strconv.Itoa(i)
		r := &panRule{
			Name:        rulePrefix + strconv.Itoa(i+1),
			Action:      verifPickAction(rt),
			From:        []string{"any"},
			To:          []string{"any"},
			Application: []string{"any"},
			LogEnd:      "yes",
			RuleType:    "interzone",
		}
		r.Destination = []string{"any"}
		r.Service = []string{"tcp 80"}
		if verifGroupList && len(grpNames) > 1 && vf.Bool(rt+".srcIsGroupList") {
			// several address-groups in one source list
			for _, g := range grpNames {
				used[g] = true
			}
			r.Source = append([]string{}, grpNames...)
			vf.Cover("source list with two address-groups")
		} else if len(grpNames) > 0 && (verifOnlyGroups || vf.Bool(rt+".srcIsGroup")) {
			gi := 0
			if len(grpNames) > 1 {
				gi = vf.FixInt(vf.Int(rt+".group", 0, len(grpNames)-1))
			}
			used[grpNames[gi]] = true
			r.Source = []string{grpNames[gi]}
		} else {
			r.Source = verifPickMembers(rt+".src", verifSrcMax)
		}
		v.rules = append(v.rules, r)
	}
	for _, g := range grpNames {
		if used[g] {
			v.groups = append(v.groups, &panAddressGroup{Name: g, Members: verifPickMembers(t+"."+g, maxMembers)})
		}
	}
	// all addresses are defined (identical on both sides); unused ones on the
	// device are removed by the tool
	for i := range verifAddrNames {
		v.addrs = append(v.addrs, verifAddr(i))
	}
	v.svcs = []*panService{verifSvc("tcp 80", svcPort)}
	return v
}

func (v *verifVsys) vsys() *panVsys {
	return &panVsys{Name: "vsys1", DisplayName: "netspoc", Rules: v.rules, Addresses: v.addrs, AddressGroups: v.groups, Services: v.svcs}
}

func verifCopyRule(r *panRule) *panRule {
	c := *r
	c.From = append([]string{}, r.From...)
	c.To = append([]string{}, r.To...)
	c.Source = append([]string{}, r.Source...)
	c.Destination = append([]string{}, r.Destination...)
	c.Service = append([]string{}, r.Service...)
	c.Application = append([]string{}, r.Application...)
	return &c
}

func (v *verifVsys) clone() *verifVsys {
	c := &verifVsys{}
	for _, r := range v.rules {
		c.rules = append(c.rules, verifCopyRule(r))
	}
	for _, a := range v.addrs {
		c.addrs = append(c.addrs, &panAddress{Name: a.Name, IpNetmask: a.IpNetmask})
	}
	for _, g := range v.groups {
		c.groups = append(c.groups, &panAddressGroup{Name: g.Name, Members: append([]string{}, g.Members...)})
	}
	for _, s := range v.svcs {
		c.svcs = append(c.svcs, verifSvc(s.Name, s.Protocol.TCP.Port))
	}
	return c
}

// ---------------------------------------------------------------------------
// model of the candidate configuration of one vsys

type verifPan struct {
	verifVsys
}

func (m *verifPan) reject(c bool, why string) {
	vf.Assert(vf.Not(c), "C08: PAN-OS rejects command: "+why)
}

func (m *verifPan) rule(name string) (int, *panRule) {
	for i, r := range m.rules {
		if r.Name == name {
			return i, r
		}
	}
	return -1, nil
}

func (m *verifPan) hasAddr(name string) bool {
	f := false
	for _, a := range m.addrs {
		f = vf.Or(f, vf.TermBool(a.Name == name))
	}
	return f
}

func (m *verifPan) group(name string) *panAddressGroup {
	for _, g := range m.groups {
		if g.Name == name {
			return g
		}
	}
	return nil
}

func (m *verifPan) hasService(name string) bool {
	for _, s := range m.svcs {
		if s.Name == name {
			return true
		}
	}
	return false
}

// every object a member list refers to must exist
func (m *verifPan) checkMembers(l []string, allowGroup bool, what string) {
	for _, x := range l {
		if x == "any" {
			continue
		}
		if allowGroup && m.group(vf.FixString(verifGroupShape(x))) != nil {
			continue
		}
		m.reject(vf.Not(m.hasAddr(x)), what+" refers to an address or group that does not exist")
	}
}

// group names are concrete (g0, g0-1, ...), address names start with IP_
func verifGroupShape(s string) string {
	if strings.HasPrefix(s, "g") {
		return s
	}
	return ""
}

func (m *verifPan) referenced(name string) bool {
	f := false
	for _, r := range m.rules {
		for _, x := range r.Source {
			f = vf.Or(f, vf.TermBool(x == name))
		}
		for _, x := range r.Destination {
			f = vf.Or(f, vf.TermBool(x == name))
		}
	}
	for _, g := range m.groups {
		for _, x := range g.Members {
			f = vf.Or(f, vf.TermBool(x == name))
		}
	}
	return f
}

func verifParam(cmd, key string) string {
	for _, kv := range strings.Split(cmd, "&") {
		if v, ok := strings.CutPrefix(kv, key+"="); ok {
			return v
		}
	}
	return ""
}

func verifUnesc(s string) string {
	u, err := url.QueryUnescape(s)
	if err != nil {
		return s
	}
	return u
}

// name from  entry[@name='X']
func verifEntryName(seg string) string {
	_, rest, ok := strings.Cut(seg, "[@name='")
	if !ok {
		return ""
	}
	name, _, _ := strings.Cut(rest, "']")
	return verifUnesc(name)
}

func (m *verifPan) exec(cmd string, vsysPath string) {
	cmd = vf.FixString(cmd) // commands are concrete text with blob tokens
	action := verifParam(cmd, "action")
	xpath := verifParam(cmd, "xpath")
	elem := verifUnesc(verifParam(cmd, "element"))
	vf.Assert(strings.HasPrefix(xpath, vsysPath+"/"), "C07: PAN-OS: command addresses a path outside the targeted vsys")
	rel := strings.TrimPrefix(xpath, vsysPath)
	const rulesP = "/rulebase/security/rules/"
	switch {
	case strings.HasPrefix(rel, rulesP):
		seg := rel[len(rulesP):]
		entry, sub, hasSub := strings.Cut(seg, "/")
		name := verifEntryName(entry)
		idx, ru := m.rule(name)
		if !hasSub {
			switch action {
			case "delete":
				m.reject(ru == nil, "delete of unknown rule")
				if ru != nil {
					m.rules = append(append([]*panRule{}, m.rules[:idx]...), m.rules[idx+1:]...)
				}
			case "set":
				nr := &panRule{}
				if err := xml.Unmarshal(verifWrap(elem), nr); err != nil {
					m.reject(true, "invalid rule element")
					return
				}
				nr.Name = name
				m.checkMembers(nr.Source, true, "rule source")
				m.checkMembers(nr.Destination, true, "rule destination")
				for _, s := range nr.Service {
					m.reject(s != "any" && s != "application-default" && !m.hasService(vf.FixString(s)), "rule refers to unknown service")
				}
				if ru != nil {
					m.rules[idx] = nr
				} else {
					m.rules = append(m.rules, nr)
				}
			case "move":
				m.reject(ru == nil, "move of unknown rule")
				dst := verifUnesc(verifParam(cmd, "dst"))
				di, dr := m.rule(dst)
				m.reject(dr == nil, "move before a rule that does not exist")
				if ru != nil && dr != nil {
					rest := append(append([]*panRule{}, m.rules[:idx]...), m.rules[idx+1:]...)
					if idx < di {
						di--
					}
					nl := append([]*panRule{}, rest[:di]...)
					nl = append(nl, ru)
					nl = append(nl, rest[di:]...)
					m.rules = nl
				}
			default:
				m.reject(true, "unknown action on rule")
			}
			return
		}
		m.reject(ru == nil, "edit of a part of an unknown rule")
		if ru == nil {
			return
		}
		part, memberSel, hasSel := strings.Cut(sub, "/member[text()='")
		var list *[]string
		switch part {
		case "source":
			list = &ru.Source
		case "destination":
			list = &ru.Destination
		case "service":
			list = &ru.Service
		default:
			m.reject(true, "unknown part of rule: "+part)
			return
		}
		if hasSel {
			// delete one member
			member := verifUnesc(strings.TrimSuffix(memberSel, "']"))
			m.reject(action != "delete", "member selector with other action than delete")
			var nl []string
			found := false
			for _, x := range *list {
				if x == member {
					found = true
					continue
				}
				nl = append(nl, x)
			}
			m.reject(!found, "delete of member that is not in the list")
			*list = nl
			return
		}
		switch action {
		case "edit":
			nr := &panRule{}
			if err := xml.Unmarshal(verifWrap(elem), nr); err != nil {
				m.reject(true, "invalid element")
				return
			}
			switch part {
			case "source":
				*list = nr.Source
			case "destination":
				*list = nr.Destination
			case "service":
				*list = nr.Service
			}
		case "set":
			mem := &panMembers{}
			if err := xml.Unmarshal([]byte("<x>"+elem+"</x>"), mem); err != nil {
				m.reject(true, "invalid element")
				return
			}
			*list = append(append([]string{}, *list...), mem.Member...)
		default:
			m.reject(true, "unknown action on rule part")
		}
		if part != "service" {
			m.checkMembers(*list, true, "rule "+part)
		}
	case strings.HasPrefix(rel, "/address-group/"):
		seg := rel[len("/address-group/"):]
		entry, sub, hasSub := strings.Cut(seg, "/")
		name := verifEntryName(entry)
		g := m.group(name)
		if !hasSub {
			m.reject(action != "delete", "unknown action on address-group")
			m.reject(g == nil, "delete of unknown address-group")
			m.reject(m.referenced(name), "delete of address-group that is still referenced")
			for i, x := range m.groups {
				if x.Name == name {
					m.groups = append(append([]*panAddressGroup{}, m.groups[:i]...), m.groups[i+1:]...)
					break
				}
			}
			return
		}
		_, memberSel, hasSel := strings.Cut(sub, "/member[text()='")
		if hasSel {
			member := verifUnesc(strings.TrimSuffix(memberSel, "']"))
			m.reject(g == nil, "member delete in unknown group")
			if g == nil {
				return
			}
			var nl []string
			found := false
			for _, x := range g.Members {
				if x == member {
					found = true
					continue
				}
				nl = append(nl, x)
			}
			m.reject(!found, "delete of member that is not in the group")
			g.Members = nl
			return
		}
		mem := &panMembers{}
		if err := xml.Unmarshal([]byte("<x>"+elem+"</x>"), mem); err != nil {
			m.reject(true, "invalid element")
			return
		}
		if g == nil {
			g = &panAddressGroup{Name: name}
			m.groups = append(m.groups, g)
		}
		g.Members = append(append([]string{}, g.Members...), mem.Member...)
		m.checkMembers(g.Members, false, "address-group")
	case strings.HasPrefix(rel, "/address/"):
		name := verifEntryName(rel[len("/address/"):])
		switch action {
		case "delete":
			m.reject(vf.Not(m.hasAddr(name)), "delete of unknown address")
			m.reject(m.referenced(name), "delete of address that is still referenced")
			var nl []*panAddress
			for _, a := range m.addrs {
				if a.Name != name {
					nl = append(nl, a)
				}
			}
			m.addrs = nl
		case "set", "edit":
			a := &panAddress{}
			if err := xml.Unmarshal(verifWrap(elem), a); err != nil {
				m.reject(true, "invalid element")
				return
			}
			a.Name = name
			var nl []*panAddress
			for _, x := range m.addrs {
				if x.Name != name {
					nl = append(nl, x)
				}
			}
			m.addrs = append(nl, a)
		}
	case strings.HasPrefix(rel, "/service/"):
		name := verifEntryName(rel[len("/service/"):])
		switch action {
		case "delete":
			m.reject(!m.hasService(name), "delete of unknown service")
			for _, r := range m.rules {
				for _, s := range r.Service {
					m.reject(s == name, "delete of service that is still referenced")
				}
			}
			var nl []*panService
			for _, s := range m.svcs {
				if s.Name != name {
					nl = append(nl, s)
				}
			}
			m.svcs = nl
		case "set", "edit":
			s := &panService{}
			if err := xml.Unmarshal(verifWrap(elem), s); err != nil {
				m.reject(true, "invalid element")
				return
			}
			s.Name = name
			var nl []*panService
			for _, x := range m.svcs {
				if x.Name != name {
					nl = append(nl, x)
				}
			}
			m.svcs = append(nl, s)
		}
	default:
		m.reject(true, "command for unknown path "+rel)
	}
}

// expanded address set of a member list as membership vector (terms)
func verifExpand(l []string, v *verifVsys) []bool {
	out := make([]bool, len(verifAddrNames))
	var walk func(l []string, depth int)
	walk = func(l []string, depth int) {
		for _, x := range l {
			isGroup := false
			for _, g := range v.groups {
				if g.Name == vf.FixString(verifGroupShape(x)) {
					isGroup = true
					if depth < 2 {
						walk(g.Members, depth+1)
					}
				}
			}
			if !isGroup {
				for k, n := range verifAddrNames {
					out[k] = vf.Or(out[k], vf.TermBool(x == n))
				}
			}
		}
	}
	walk(l, 0)
	return out
}

func verifRuleSame(a *panRule, av *verifVsys, b *panRule, bv *verifVsys) bool {
	eq := vf.TermBool(a.Action == b.Action)
	ma, mb := verifExpand(a.Source, av), verifExpand(b.Source, bv)
	for k := range ma {
		eq = vf.And(eq, vf.Or(vf.And(ma[k], mb[k]), vf.And(vf.Not(ma[k]), vf.Not(mb[k]))))
	}
	return eq
}

// same rules in the same order, sources compared by expanded content
func verifSameRulebase(av *verifVsys, bv *verifVsys) bool {
	if len(av.rules) != len(bv.rules) {
		return false
	}
	ok := true
	for i := range av.rules {
		ok = vf.And(ok, verifRuleSame(av.rules[i], av, bv.rules[i], bv))
	}
	return ok
}

// VerifPAN is the converge harness for PAN-OS.
func VerifPAN() {
	N, _ := strconv.Atoi(vf.Param("N", "2"))
	G, _ := strconv.Atoi(vf.Param("G", "1"))
	MM, _ := strconv.Atoi(vf.Param("members", "2"))
	cut := vf.Param("cut", "0") == "1"
	verifSrcMax, _ = strconv.Atoi(vf.Param("srcmax", "2"))
	verifGroupList = vf.Param("glist", "0") == "1"
	verifOnlyGroups = vf.Param("onlygroups", "0") == "1"
	verifOneAction = vf.Param("oneaction", "0") == "1"
	vf.Assumption("PAN-OS: one vsys, rules with symbolic action and a source that is a sorted list of 1..2 of 3 addresses or an address-group (1.." + strconv.Itoa(MM) + " members); other rule attributes fixed; addresses and one service are defined on both sides, the service port differs on the device or not")
	vf.Assumption("PAN-OS model: set creates or extends, edit replaces, delete of a rule/member/object must find it, delete of an address or address-group is rejected while referenced, 'move before dst' needs dst, rules and groups may only refer to existing addresses/groups/services")
	vf.Assumption("encoding/xml stub: values with symbols are marshalled to blob tokens and merged back by field name; Marshal injective, Unmarshal(Marshal(v)) == v")
	vsysPath := "/config/devices/entry[@name='localhost.localdomain']/vsys/entry[@name='vsys1']"
	grpA := []string{"g0", "g1"}[:G]
	grpB := []string{"g0", "g1"}[:G]
	n := vf.Int("n", 0, N)
	m := vf.Int("m", 0, N)
	dA := verifMkVsys("a", n, grpA, MM, vf.Pick("a.port", []string{"80", "81"}), "r")
	dB := verifMkVsys("b", m, grpB, MM, "80", "r")
	if G > 0 && vf.Bool("leftoverGroup") {
		// an unused address-group on the device: under a name the target
		// uses as well or under another name
		name := "g9"
		if !vf.Bool("leftoverHasOtherName") {
			name = ""
			for _, gname := range grpA {
				found := false
				for _, g := range dA.groups {
					found = found || g.Name == gname
				}
				if !found {
					name = gname
					break
				}
			}
		}
		if name != "" {
			dA.groups = append(dA.groups, &panAddressGroup{Name: name, Members: verifPickMembers("a.left."+name, MM)})
			vf.Cover("unused address-group on device")
		}
	}
	model := &verifPan{*dA.clone()}
	tgt := dB.clone()
	changes := diffConfig(dA.vsys(), dB.vsys(), vsysPath)
	for _, c := range changes {
		vf.Note("CHG:", verifUnesc(c))
	}
	if len(changes) == 0 {
		vf.Cover("no change reported")
		vf.Assert(verifSameRulebase(&model.verifVsys, tgt), "C03: no change reported although the rulebases differ")
	} else {
		vf.Cover("changes emitted")
	}
	for _, c := range changes {
		if strings.Contains(c, "action=move") {
			vf.Cover("rule moved")
		}
		if strings.Contains(c, "/member%5Btext") || strings.Contains(c, "/member[text") {
			vf.Cover("member deleted incrementally")
		}
	}
	k := len(changes)
	if cut {
		k = vf.Int("cut", 0, len(changes))
	}
	for _, c := range changes[:k] {
		model.exec(c, vsysPath)
	}
	lbl := "C03"
	if cut {
		lbl = "C10"
		vf.Cover("resumed after cut")
		s2 := model.clone()
		for _, c := range diffConfig(s2.vsys(), tgt.clone().vsys(), vsysPath) {
			vf.Note("CHG2:", verifUnesc(c))
			model.exec(c, vsysPath)
		}
	}
	vf.Assert(verifSameRulebase(&model.verifVsys, tgt), lbl+": PAN-OS: rulebase after executing the commands differs from the target")
	s3 := model.clone()
	c3 := diffConfig(s3.vsys(), tgt.clone().vsys(), vsysPath)
	for _, c := range c3 {
		vf.Note("CHG3:", verifUnesc(c))
	}
	// defect family: a rule list holds two address-groups whose names on
	// the device sort differently from the target's names; the second
	// compare pairs the groups by sorted name, "equalizes" the wrong
	// partners and only shuffles members / list order: the expanded
	// rulebase is the target's before and after its commands
	tag := ""
	if len(c3) > 0 && verifGroupList && verifSameRulebase(&model.verifVsys, tgt) {
		m4 := &verifPan{*model.clone()}
		for _, c := range c3 {
			m4.exec(c, vsysPath)
		}
		if verifSameRulebase(&m4.verifVsys, tgt) {
			tag = " [rule list with two address-groups is re-paired, expanded rulebase unchanged]"
			vf.Cover("second compare re-pairs two address-groups of one list")
		}
	}
	vf.Assert(len(c3) == 0, lbl+": PAN-OS: second compare still reports changes"+tag)
}

// element values are printed with (edit) or without (set) their outer tag
func verifWrap(elem string) []byte {
	if strings.HasPrefix(elem, "<entry") || strings.HasPrefix(elem, "<blob>") {
		return []byte(elem)
	}
	return []byte("<entry>" + elem + "</entry>")
}
