package nsx

// C04 harness (with C07/C08/C10 assertions for NSX): one gateway policy,
// rules whose source is an address literal or a group, groups as sorted
// address lists; the emitted REST calls are executed on a model of the
// NSX manager.

import (
	"encoding/json"
	"strconv"
	"strings"

	"github.com/hknutzen/Netspoc-Approve/go/pkg/vf"
)

var verifAddrs = []string{"10.1.1.10", "10.1.1.20", "10.1.1.30", "10.1.1.40"}

const verifGrpPfx = "/infra/domains/default/groups/"

var verifSeqs = 2

type verifSide struct {
	rules  []*nsxRule
	groups []*nsxGroup
	svcs   []*nsxService
}

func verifMkGroup(t, id string, maxMembers int) *nsxGroup {
	k := vf.Int(t+".size", 1, maxMembers)
	prev := -1
	var l []string
	for j := 0; j < k; j++ {
		h := vf.Int(t+".m"+strconv.Itoa(j), 0, len(verifAddrs)-1)
		vf.Assume(h > prev) // sorted, distinct: diffConfig sorts the lists first
		prev = h
		l = append(l, vf.SelectString(h, verifAddrs))
	}
	return &nsxGroup{Id: id, Expression: []*nsxGroupExpression{{Id: "id", ResourceType: "IPAddressExpression", IPAddresses: l}}}
}

func verifMkService(id, port string) *nsxService {
	return &nsxService{Id: id, ServiceEntries: []*nsxServiceEntry{{Id: "id", ResourceType: "L4PortSetServiceEntry", L4Protocol: "TCP", SourcePorts: []string{}, DestinationPorts: []string{port}}}}
}

// verifSuffixIds: the second device rule is named r1-1 instead of r2
var verifSuffixIds = false

func verifMkSide(t string, n int, grpIds []string, maxMembers int, svcPort string) *verifSide {
	s := &verifSide{}
	used := map[string]bool{}
	for i := 0; i < n; i++ {
		rt := t + strconv.Itoa(i)
		id := "r" + strconv.Itoa(i+1)
		if t == "a" && i == 1 && verifSuffixIds {
			// the state an earlier approve leaves after renaming a clashing rule
			id = "r1-1"
		}
		r := &nsxRule{
			Id:                id,
			Action:            vf.Pick(rt+".action", []string{"ALLOW", "DROP"}),
			SequenceNumber:    vf.SelectInt(vf.Int(rt+".seq", 0, verifSeqs-1), []int{20, 30}),
			DestinationGroups: []string{"10.1.2.40"},
			Services:          []string{"/infra/services/Netspoc-tcp_80"},
			Scope:             []string{"/infra/tier-0s/v1"},
			Direction:         "OUT",
			IPProtocol:        "IPV4",
		}
		if len(grpIds) > 0 && vf.Bool(rt+".srcIsGroup") {
			gi := 0
			if len(grpIds) > 1 {
				gi = vf.FixInt(vf.Int(rt+".group", 0, len(grpIds)-1))
			}
			used[grpIds[gi]] = true
			r.SourceGroups = []string{verifGrpPfx + grpIds[gi]}
		} else {
			r.SourceGroups = []string{vf.Pick(rt+".src", verifAddrs[:2])}
		}
		s.rules = append(s.rules, r)
	}
	for _, id := range grpIds {
		if used[id] {
			s.groups = append(s.groups, verifMkGroup(t+"."+id, id, maxMembers))
		}
	}
	s.svcs = []*nsxService{verifMkService("Netspoc-tcp_80", svcPort)}
	return s
}

func (s *verifSide) config() *NsxConfig {
	c := &NsxConfig{Groups: s.groups, Services: s.svcs}
	if len(s.rules) > 0 {
		c.Policies = []*nsxPolicy{{Id: "Netspoc-v1", Rules: s.rules}}
	}
	return c
}

// deep copy through the JSON codec is avoided: copy the few fields by hand
func verifCopyRule(r *nsxRule) *nsxRule {
	c := *r
	c.SourceGroups = append([]string{}, r.SourceGroups...)
	c.DestinationGroups = append([]string{}, r.DestinationGroups...)
	c.Services = append([]string{}, r.Services...)
	c.Scope = append([]string{}, r.Scope...)
	return &c
}

func verifCopyGroup(g *nsxGroup) *nsxGroup {
	return &nsxGroup{Id: g.Id, Expression: []*nsxGroupExpression{{Id: g.Expression[0].Id, ResourceType: g.Expression[0].ResourceType,
		IPAddresses: append([]string{}, g.Expression[0].IPAddresses...)}}}
}

func (s *verifSide) clone() *verifSide {
	c := &verifSide{}
	for _, r := range s.rules {
		c.rules = append(c.rules, verifCopyRule(r))
	}
	for _, g := range s.groups {
		c.groups = append(c.groups, verifCopyGroup(g))
	}
	for _, sv := range s.svcs {
		c.svcs = append(c.svcs, verifMkService(sv.Id, sv.ServiceEntries[0].DestinationPorts[0]))
	}
	return c
}

// ---------------------------------------------------------------------------
// model of the NSX manager

type verifNSX struct {
	hasPolicy bool
	rules     []*nsxRule
	groups    []*nsxGroup
	svcs      []*nsxService
	extGroup  bool // a group without the Netspoc prefix exists (unmanaged)
}

func (m *verifNSX) reject(c bool, why string) { vf.Assert(vf.Not(c), "C08: NSX rejects request: "+why) }

func (m *verifNSX) group(id string) *nsxGroup {
	for _, g := range m.groups {
		if g.Id == id {
			return g
		}
	}
	return nil
}

func (m *verifNSX) service(id string) *nsxService {
	for _, s := range m.svcs {
		if s.Id == id {
			return s
		}
	}
	return nil
}

func (m *verifNSX) checkRefs(r *nsxRule) {
	for _, l := range [][]string{r.SourceGroups, r.DestinationGroups} {
		if id, ok := strings.CutPrefix(vf.FixString(verifRefShape(l[0])), verifGrpPfx); ok {
			m.reject(m.group(id) == nil, "rule references unknown group")
		}
	}
	if id, ok := strings.CutPrefix(r.Services[0], "/infra/services/"); ok {
		m.reject(m.service(vf.FixString(id)) == nil, "rule references unknown service")
	}
}

// verifRefShape keeps group references (concrete ids) and hides address literals.
func verifRefShape(s string) string {
	if strings.HasPrefix(s, verifGrpPfx) {
		return s
	}
	return ""
}

func (m *verifNSX) refs(id string) bool {
	for _, r := range m.rules {
		if r.SourceGroups[0] == verifGrpPfx+id || r.DestinationGroups[0] == verifGrpPfx+id {
			return true
		}
	}
	return false
}

func (m *verifNSX) exec(c change) {
	method := c.method
	url := vf.FixString(c.url)
	const pol = "/policy/api/v1/infra/domains/default/gateway-policies/"
	const grp = "/policy/api/v1/infra/domains/default/groups/"
	const svc = "/policy/api/v1/infra/services/"
	vf.Assert(strings.Contains(url, "Netspoc"), "C07: NSX: request addresses an object without the Netspoc prefix: "+method)
	switch {
	case strings.HasPrefix(url, svc):
		id := url[len(svc):]
		switch method {
		case "PUT", "PATCH":
			s := &nsxService{}
			if err := json.Unmarshal(c.postData, s); err != nil {
				m.reject(true, "invalid JSON body")
				return
			}
			s.Id = id
			if old := m.service(id); old != nil {
				old.ServiceEntries = s.ServiceEntries
			} else {
				m.reject(method == "PATCH", "PATCH of unknown service")
				m.svcs = append(m.svcs, s)
			}
		case "DELETE":
			m.reject(m.service(id) == nil, "delete of unknown service")
			for _, r := range m.rules {
				m.reject(r.Services[0] == "/infra/services/"+id, "delete of service that is still referenced")
			}
			for i, s := range m.svcs {
				if s.Id == id {
					m.svcs = append(append([]*nsxService{}, m.svcs[:i]...), m.svcs[i+1:]...)
					break
				}
			}
		}
	case strings.HasPrefix(url, grp):
		rest := url[len(grp):]
		id, tail, hasTail := strings.Cut(rest, "/ip-address-expressions/")
		if !hasTail {
			switch method {
			case "PUT", "PATCH":
				g := &nsxGroup{}
				if err := json.Unmarshal(c.postData, g); err != nil {
					m.reject(true, "invalid JSON body")
					return
				}
				g.Id = id
				m.reject(len(g.Expression) != 1, "group without expression")
				if old := m.group(id); old != nil {
					old.Expression = g.Expression
				} else {
					m.groups = append(m.groups, g)
				}
			case "DELETE":
				m.reject(m.group(id) == nil, "delete of unknown group")
				m.reject(m.refs(id), "delete of group that is still referenced by a rule")
				for i, g := range m.groups {
					if g.Id == id {
						m.groups = append(append([]*nsxGroup{}, m.groups[:i]...), m.groups[i+1:]...)
						break
					}
				}
			}
			return
		}
		g := m.group(id)
		m.reject(g == nil, "address expression of unknown group")
		if g == nil {
			return
		}
		_, action, isAction := strings.Cut(tail, "?action=")
		if !isAction {
			// PATCH of the whole expression
			e := &nsxGroupExpression{}
			if err := json.Unmarshal(c.postData, e); err != nil {
				m.reject(true, "invalid JSON body")
				return
			}
			g.Expression[0].IPAddresses = e.IPAddresses
			return
		}
		var data struct {
			IpAddresses []string `json:"ip_addresses"`
		}
		if err := json.Unmarshal(c.postData, &data); err != nil {
			m.reject(true, "invalid JSON body")
			return
		}
		cur := g.Expression[0].IPAddresses
		for _, a := range data.IpAddresses {
			present := false
			for _, x := range cur {
				present = vf.Or(present, vf.TermBool(x == a))
			}
			if action == "add" {
				m.reject(present, "add of address that is already in the group")
				cur = append(cur, a)
			} else {
				m.reject(vf.Not(present), "remove of address that is not in the group")
				var nl []string
				for _, x := range cur {
					if x != a { // forks; the model needs a concrete list
						nl = append(nl, x)
					}
				}
				cur = nl
			}
		}
		g.Expression[0].IPAddresses = cur
	case strings.HasPrefix(url, pol):
		rest := url[len(pol):]
		pid, rid, isRule := strings.Cut(rest, "/rules/")
		_ = pid
		if !isRule {
			switch method {
			case "PUT":
				p := &nsxPolicy{}
				if err := json.Unmarshal(c.postData, p); err != nil {
					m.reject(true, "invalid JSON body")
					return
				}
				for _, r := range p.Rules {
					m.checkRefs(r)
				}
				m.hasPolicy = true
				m.rules = p.Rules
			case "DELETE":
				m.reject(!m.hasPolicy, "delete of unknown policy")
				m.hasPolicy = false
				m.rules = nil
			}
			return
		}
		m.reject(!m.hasPolicy, "rule of unknown policy")
		switch method {
		case "PUT", "PATCH":
			r := &nsxRule{}
			if err := json.Unmarshal(c.postData, r); err != nil {
				m.reject(true, "invalid JSON body")
				return
			}
			r.Id = rid
			m.checkRefs(r)
			for i, x := range m.rules {
				if x.Id == rid {
					m.rules[i] = r
					return
				}
			}
			m.reject(method == "PATCH", "PATCH of unknown rule")
			m.rules = append(m.rules, r)
		case "DELETE":
			for i, x := range m.rules {
				if x.Id == rid {
					m.rules = append(append([]*nsxRule{}, m.rules[:i]...), m.rules[i+1:]...)
					return
				}
			}
			m.reject(true, "delete of unknown rule")
		}
	default:
		m.reject(true, "unknown URL "+url)
	}
}

// address set of an endpoint as a membership vector (terms)
func verifMembers(ep string, groups []*nsxGroup) []bool {
	v := make([]bool, len(verifAddrs))
	if id, ok := strings.CutPrefix(vf.FixString(verifRefShape(ep)), verifGrpPfx); ok {
		for _, g := range groups {
			if g.Id == id {
				for _, a := range g.Expression[0].IPAddresses {
					for k := range verifAddrs {
						v[k] = vf.Or(v[k], vf.TermBool(a == verifAddrs[k]))
					}
				}
			}
		}
		return v
	}
	for k := range verifAddrs {
		v[k] = vf.TermBool(ep == verifAddrs[k])
	}
	return v
}

func verifRuleEq(a *nsxRule, ag []*nsxGroup, b *nsxRule, bg []*nsxGroup) bool {
	eq := vf.And(vf.TermBool(a.Action == b.Action), vf.TermBool(a.SequenceNumber == b.SequenceNumber))
	eq = vf.And(eq, vf.TermBool(a.Services[0] == b.Services[0]))
	eq = vf.And(eq, vf.TermBool(a.DestinationGroups[0] == b.DestinationGroups[0]))
	ma := verifMembers(a.SourceGroups[0], ag)
	mb := verifMembers(b.SourceGroups[0], bg)
	for k := range ma {
		eq = vf.And(eq, vf.Or(vf.And(ma[k], mb[k]), vf.And(vf.Not(ma[k]), vf.Not(mb[k]))))
	}
	return eq
}

// equivalent: same rules when groups are compared by address sets (as multiset,
// rule order on NSX is given by sequence numbers, not by position)
func verifEquivalent(rules []*nsxRule, groups []*nsxGroup, t *verifSide) bool {
	if len(rules) != len(t.rules) {
		return false
	}
	ok := true
	for _, b := range t.rules {
		f := false
		for _, a := range rules {
			f = vf.Or(f, verifRuleEq(a, groups, b, t.groups))
		}
		ok = vf.And(ok, f)
	}
	for _, a := range rules {
		f := false
		for _, b := range t.rules {
			f = vf.Or(f, verifRuleEq(a, groups, b, t.groups))
		}
		ok = vf.And(ok, f)
	}
	return ok
}

func (m *verifNSX) side() *verifSide {
	s := &verifSide{}
	for _, r := range m.rules {
		s.rules = append(s.rules, verifCopyRule(r))
	}
	for _, g := range m.groups {
		s.groups = append(s.groups, verifCopyGroup(g))
	}
	for _, sv := range m.svcs {
		s.svcs = append(s.svcs, verifMkService(sv.Id, sv.ServiceEntries[0].DestinationPorts[0]))
	}
	return s
}

func (s *verifSide) modelConfig(hasPolicy bool) *NsxConfig {
	c := &NsxConfig{Groups: s.groups, Services: s.svcs}
	if hasPolicy {
		c.Policies = []*nsxPolicy{{Id: "Netspoc-v1", Rules: s.rules}}
	}
	return c
}

// VerifNSX is the converge harness for NSX.
func VerifNSX() {
	N, _ := strconv.Atoi(vf.Param("N", "2"))
	G, _ := strconv.Atoi(vf.Param("G", "1"))
	MM, _ := strconv.Atoi(vf.Param("members", "2"))
	cut := vf.Param("cut", "0") == "1"
	verifSeqs, _ = strconv.Atoi(vf.Param("seqs", "2"))
	vf.Assumption("NSX: one gateway policy Netspoc-v1, rules with one source (address literal or group), fixed destination and service reference, sequence numbers 20/30, groups with 1.." + strconv.Itoa(MM) + " sorted distinct addresses of 4; service Netspoc-tcp_80 with symbolic port on the device")
	vf.Assumption("NSX model: PUT/PATCH of a rule or policy rejects references to unknown groups/services, POST ?action=add|remove needs absent/present addresses, DELETE of a group or service is rejected while a rule references it, PATCH needs an existing object")
	ids := []string{"Netspoc-g0", "Netspoc-g1"}[:G]
	n := vf.Int("n", 0, N)
	m := vf.Int("m", 0, N)
	verifSuffixIds = N >= 2 && vf.Bool("a.ruleIdsWithSuffix")
	if verifSuffixIds {
		vf.Cover("device rules named X and X-1")
	}
	dA := verifMkSide("a", n, ids, MM, vf.Pick("a.port", []string{"80", "81"}))
	dB := verifMkSide("b", m, ids, MM, "80")
	if G > 0 && vf.Bool("leftoverGroup") {
		// an unused Netspoc group on the device: under an id the target
		// uses as well or under another id
		id := "Netspoc-g9"
		if !vf.Bool("leftoverHasOtherName") {
			id = ""
			for _, x := range ids {
				found := false
				for _, g := range dA.groups {
					found = found || g.Id == x
				}
				if !found {
					id = x
					break
				}
			}
		}
		if id != "" {
			dA.groups = append(dA.groups, verifMkGroup("a.left."+id, id, MM))
			vf.Cover("unused Netspoc group on device")
		}
	}
	model := &verifNSX{hasPolicy: n > 0}
	mc := dA.clone()
	model.rules, model.groups, model.svcs = mc.rules, mc.groups, mc.svcs
	tgt := dB.clone() // ghost copy of the target, untouched by the tool

	// tag of a known defect family: two rules of one side agree in all sort
	// keys in front of the source and their source groups start with the
	// same address (sortRules orders such rules by the first address only)
	tieTag := ""
	for _, sd := range []*verifSide{dA, dB} {
		grp := func(r *nsxRule) *nsxGroup {
			for _, g := range sd.groups {
				if r.SourceGroups[0] == verifGrpPfx+g.Id {
					return g
				}
			}
			return nil
		}
		for i, r := range sd.rules {
			for _, q := range sd.rules[:i] {
				gr, gq := grp(r), grp(q)
				if gr != nil && gq != nil && gr != gq && r.SequenceNumber == q.SequenceNumber && r.Action == q.Action &&
					gr.Expression[0].IPAddresses[0] == gq.Expression[0].IPAddresses[0] {
					tieTag = " [two groups start with the same address]"
				}
			}
		}
	}
	if tieTag != "" {
		vf.Cover("two groups start with the same address")
	}
	changes := diffConfig(dA.config(), dB.config())
	for _, c := range changes {
		vf.Note("CHG:", c.method, c.url)
	}
	if len(changes) == 0 {
		vf.Cover("no change reported")
		vf.Assert(verifEquivalent(model.rules, model.groups, tgt), "C04: no change reported although the policies differ")
	} else {
		vf.Cover("changes emitted")
	}
	for _, c := range changes {
		if strings.Contains(c.url, "?action=") {
			vf.Cover("incremental group edit")
		}
		if c.method == "PATCH" && strings.Contains(c.url, "/rules/") {
			vf.Cover("rule patched")
		}
	}
	k := len(changes)
	if cut {
		k = vf.Int("cut", 0, len(changes))
	}
	for _, c := range changes[:k] {
		model.exec(c)
	}
	lbl := "C04"
	if cut {
		lbl = "C10"
		vf.Cover("resumed after cut")
		s2 := model.side()
		for _, c := range diffConfig(s2.modelConfig(model.hasPolicy), tgt.clone().config()) {
			vf.Note("CHG2:", c.method, c.url)
			model.exec(c)
		}
	}
	vf.Assert(verifEquivalent(model.rules, model.groups, tgt), lbl+": NSX: rules after executing the requests differ from the target"+tieTag)
	// no left-over Netspoc service the target lacks, no unused Netspoc group
	for _, s := range model.svcs {
		found := false
		for _, t := range tgt.svcs {
			found = found || t.Id == s.Id
		}
		vf.Assert(found, lbl+": NSX: left-over Netspoc service that the target does not define")
	}
	for _, g := range model.groups {
		vf.Assert(model.refs(g.Id), lbl+": NSX: left-over Netspoc group that no rule uses")
	}
	s3 := model.side()
	c3 := diffConfig(s3.modelConfig(model.hasPolicy), tgt.clone().config())
	for _, c := range c3 {
		vf.Note("CHG3:", c.method, c.url)
	}
	vf.Assert(len(c3) == 0, lbl+": NSX: second compare still reports changes"+tieTag)
}
