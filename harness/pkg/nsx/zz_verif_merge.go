package nsx

// C18 harness for NSX: policies, rules, groups and services of the raw /
// IPv6 part are merged into the Netspoc part; every rule exactly once,
// order inside each part preserved, rules of a policy with the same id
// are joined, other policies are added.

import (
	"strconv"

	"github.com/hknutzen/Netspoc-Approve/go/pkg/vf"
)

func verifMergeNsxRules(t string, cnt int) []*nsxRule {
	var l []*nsxRule
	for i := 0; i < cnt; i++ {
		l = append(l, &nsxRule{Id: t + strconv.Itoa(i+1), Action: vf.Pick(t+strconv.Itoa(i)+".action", []string{"ALLOW", "DROP"}),
			SequenceNumber: 20, SourceGroups: []string{"10.1.1.10"}, DestinationGroups: []string{"10.1.2.40"},
			Services: []string{"ANY"}, Scope: []string{"/infra/tier-0s/v1"}, Direction: "OUT", IPProtocol: "IPV4"})
	}
	return l
}

func VerifMergeNSX() {
	N, _ := strconv.Atoi(vf.Param("N", "2"))
	vf.Assumption("NSX merge: Netspoc part with policy Netspoc-v1 (0..N rules; policy absent when it has no rule), raw part with a policy of the same or of another id (0..N rules); one group and one service per part")
	n := vf.Int("n", 0, N)
	m := vf.Int("m", 0, N)
	spoc := verifMergeNsxRules("r", n)
	raw := verifMergeNsxRules("raw", m)
	rawId := vf.FixString(vf.Pick("rawPolicy", []string{"Netspoc-v1", "Netspoc-v2"}))
	c1 := &NsxConfig{Groups: []*nsxGroup{verifMkGroupFixed("Netspoc-g1")}, Services: []*nsxService{verifMkService("Netspoc-tcp_80", "80")}}
	if n > 0 {
		c1.Policies = []*nsxPolicy{{Id: "Netspoc-v1", Rules: spoc}}
	}
	c2 := &NsxConfig{Groups: []*nsxGroup{verifMkGroupFixed("Netspoc-g2")}, Services: []*nsxService{verifMkService("Netspoc-tcp_81", "81")}}
	if m > 0 {
		c2.Policies = []*nsxPolicy{{Id: rawId, Rules: raw}}
	}
	res := c1.MergeSpoc(c2).(*NsxConfig)
	vf.Assert(len(res.Groups) == 2 && len(res.Services) == 2, "C18: NSX: groups or services of a part are missing after the merge")
	var got []*nsxRule
	byPolicy := map[string][]*nsxRule{}
	for _, p := range res.Policies {
		got = append(got, p.Rules...)
		byPolicy[p.Id] = append(byPolicy[p.Id], p.Rules...)
	}
	vf.Assert(len(got) == n+m, "C18: NSX: a rule of one part is missing or duplicated after the merge")
	check := func(part []*nsxRule, id string) {
		l := byPolicy[id]
		pos := -1
		for _, r := range part {
			found := -1
			for i, x := range l {
				if x == r {
					found = i
				}
			}
			vf.Assert(found >= 0, "C18: NSX: a rule is not in the policy of its part after the merge")
			vf.Assert(found > pos, "C18: NSX: relative order of the rules of one part not preserved")
			pos = found
		}
	}
	check(spoc, "Netspoc-v1")
	check(raw, rawId)
	if n > 0 && m > 0 && rawId == "Netspoc-v1" {
		vf.Cover("rules joined into one policy")
		vf.Assert(len(res.Policies) == 1, "C18: NSX: policies with the same id are not joined")
	}
	if n > 0 && m > 0 && rawId != "Netspoc-v1" {
		vf.Cover("policy of raw part added")
	}
}

func verifMkGroupFixed(id string) *nsxGroup {
	return &nsxGroup{Id: id, Expression: []*nsxGroupExpression{{Id: "id", ResourceType: "IPAddressExpression", IPAddresses: []string{"10.1.1.10"}}}}
}
