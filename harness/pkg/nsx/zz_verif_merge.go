package nsx

// C18 harness for NSX: policies, rules, groups and services of the raw /
// IPv6 part are merged into the Netspoc part; every rule exactly once,
// order inside each part preserved, rules of a policy with the same id
// are joined, other policies are added.

import (
	"strconv"

	"github.com/hknutzen/Netspoc-Approve/go/pkg/vf"
)

func verifMergeNsxRules(t string, cnt int) []*nsxRule {
	var l []*nsxRule
	for i := 0; i < cnt; i++ {
		l = append(l, &nsxRule{Id: t + strconv.Itoa(i+1), Action: vf.Pick(t+strconv.Itoa(i)+".action", []string{"ALLOW", "DROP"}),
			SequenceNumber: 20, SourceGroups: []string{"10.1.1.10"}, DestinationGroups: []string{"10.1.2.40"},
			Services: []string{"ANY"}, Scope: []string{"/infra/tier-0s/v1"}, Direction: "OUT", IPProtocol: "IPV4"})
	}
	return l
}

func VerifMergeNSX() {
	N, _ := strconv.Atoi(vf.Param("N", "2"))
	vf.Assumption("NSX merge: Netspoc part with policy Netspoc-v1 (0..N rules; policy absent when it has no rule), raw part with up to two policy objects whose ids are solver-chosen among Netspoc-v1 / Netspoc-v2 (the same id may occur twice), 0..N rules each; one group and one service per part")
	n := vf.Int("n", 0, N)
	spoc := verifMergeNsxRules("r", n)
	c1 := &NsxConfig{Groups: []*nsxGroup{verifMkGroupFixed("Netspoc-g1")}, Services: []*nsxService{verifMkService("Netspoc-tcp_80", "80")}}
	if n > 0 {
		c1.Policies = []*nsxPolicy{{Id: "Netspoc-v1", Rules: spoc}}
	}
	c2 := &NsxConfig{Groups: []*nsxGroup{verifMkGroupFixed("Netspoc-g2")}, Services: []*nsxService{verifMkService("Netspoc-tcp_81", "81")}}
	type part struct {
		id    string
		rules []*nsxRule
	}
	var raw []part
	total := n
	for k := 0; k < 2; k++ {
		t := "raw" + strconv.Itoa(k)
		m := vf.Int(t+".rules", 0, N)
		if m == 0 {
			continue
		}
		id := vf.FixString(vf.Pick(t+".policy", []string{"Netspoc-v1", "Netspoc-v2"}))
		rules := verifMergeNsxRules(t+"r", m)
		raw = append(raw, part{id, rules})
		c2.Policies = append(c2.Policies, &nsxPolicy{Id: id, Rules: rules})
		total += m
	}
	if len(raw) == 2 && raw[0].id == raw[1].id {
		vf.Cover("raw part with two policy objects of the same id")
	}
	res := c1.MergeSpoc(c2).(*NsxConfig)
	vf.Assert(len(res.Groups) == 2 && len(res.Services) == 2, "C18: NSX: groups or services of a part are missing after the merge")
	var got []*nsxRule
	byPolicy := map[string][]*nsxRule{}
	ids := map[string]int{}
	for _, p := range res.Policies {
		got = append(got, p.Rules...)
		byPolicy[p.Id] = append(byPolicy[p.Id], p.Rules...)
		ids[p.Id]++
	}
	vf.Assert(len(got) == total, "C18: NSX: a rule of one part is missing or duplicated after the merge")
	for id, cnt := range ids {
		vf.Assert(cnt == 1, "C18: NSX: policies with the same id are not joined ("+id+")")
	}
	check := func(part []*nsxRule, id string) {
		l := byPolicy[id]
		pos := -1
		for _, r := range part {
			found := -1
			for i, x := range l {
				if x == r {
					found = i
				}
			}
			vf.Assert(found >= 0, "C18: NSX: a rule is not in the policy of its part after the merge")
			vf.Assert(found > pos, "C18: NSX: relative order of the rules of one part not preserved")
			pos = found
		}
	}
	check(spoc, "Netspoc-v1")
	for _, p := range raw {
		check(p.rules, p.id)
		if n > 0 && p.id == "Netspoc-v1" {
			vf.Cover("rules joined into one policy")
		}
		if p.id != "Netspoc-v1" {
			vf.Cover("policy of raw part added")
		}
	}
}

func verifMkGroupFixed(id string) *nsxGroup {
	return &nsxGroup{Id: id, Expression: []*nsxGroupExpression{{Id: "id", ResourceType: "IPAddressExpression", IPAddresses: []string{"10.1.1.10"}}}}
}
