package nsx

// C16 harness (NSX): identical groups on the device create ties in
// findGroupOnDevice.

import (
	"strconv"

	"github.com/hknutzen/Netspoc-Approve/go/pkg/vf"
)

func VerifDeterminismNSX() {
	N, _ := strconv.Atoi(vf.Param("N", "1"))
	MM, _ := strconv.Atoi(vf.Param("members", "2"))
	verifSeqs = 1
	vf.Assumption("map iteration schedules explored by the executor: insertion order, reversed, rotated by one (native replay: 200 runs under Go's random map order)")
	n := vf.Int("n", 0, N)
	m := vf.Int("m", 1, N)
	dA := verifMkSide("a", n, []string{"Netspoc-g0", "Netspoc-g1"}, MM, "80")
	dB := verifMkSide("b", m, []string{"Netspoc-g0", "Netspoc-g1"}, MM, "80")
	for _, id := range []string{"Netspoc-g0", "Netspoc-g1", "Netspoc-g2"} {
		found := false
		for _, g := range dA.groups {
			found = found || g.Id == id
		}
		if !found && vf.Bool("leftover."+id) {
			dA.groups = append(dA.groups, verifMkGroup("a.left."+id, id, MM))
		}
	}
	runs := 3
	if !vf.Symbolic() {
		runs = 200
	}
	var first []change
	for r := 0; r < runs; r++ {
		vf.MapOrder(r % 3)
		chg := diffConfig(dA.clone().config(), dB.clone().config())
		if r == 0 {
			first = chg
			continue
		}
		same := len(first) == len(chg)
		if same {
			for i := range first {
				same = vf.And(same, vf.TermBool(first[i].method == chg[i].method))
				same = vf.And(same, vf.TermBool(first[i].url == chg[i].url))
				if !vf.Symbolic() {
					same = same && string(first[i].postData) == string(chg[i].postData)
				}
			}
		}
		vf.Assert(same, "C16: NSX: request list depends on map iteration order")
	}
	vf.MapOrder(0)
}
