package doapprove

// C12 harness (reduced claim): on every path of both front ends the device
// is contacted and status/history/log files are written only while the
// exclusive lock basedir/lock/<device> is held; a contender fails at once
// with 'Approve in progress' and touches nothing.

import (
	"encoding/json"
	"os"
	"path"
	"strings"

	"github.com/hknutzen/Netspoc-Approve/go/pkg/device"
	"github.com/hknutzen/Netspoc-Approve/go/pkg/drc"
	"github.com/hknutzen/Netspoc-Approve/go/pkg/vf"
	"github.com/hknutzen/Netspoc-Approve/go/pkg/vfsim"
)

func VerifLock() {
	vf.Assumption("kernel flock contract: exclusive per open file description, released on close, exit or kill; OS-level interleavings are covered by argument from this contract, not by exploration")
	frontEnd := vf.FixString(vf.Pick("frontEnd", []string{"do-approve", "drc"}))
	action := vf.FixString(vf.Pick("action", []string{"approve", "compare"}))
	contended := vf.Bool("lockHeldByOtherSession")
	sc, spoc, changes := device.VerifASAParts()
	kind := device.VerifPickFault(sc, 22+len(changes))
	_ = kind
	base := vf.TempDir()
	os.Setenv("HOME", base)
	os.WriteFile(path.Join(base, ".netspoc-approve"),
		[]byte("basedir = "+base+"\ncheckbanner = NetSPoC\nsystemuser = netspoc\ntimeout = 1\nlogin_timeout = 1\n"), 0644)
	p1 := path.Join(base, "policies", "p1")
	code := path.Join(p1, "code")
	os.MkdirAll(path.Join(code, "ipv6"), 0755)
	os.Symlink("p1", path.Join(base, "policies", "current"))
	info := []byte(`{"model":"ASA","name_list":["router"],"ip_list":["10.1.13.33"]}`)
	spelling := "name"
	if frontEnd == "drc" {
		spelling = vf.FixString(vf.Pick("spelling", []string{"absolute path", "relative path", "ipv6 path"}))
	}
	if spelling == "ipv6 path" {
		// device that has only IPv6 code
		os.WriteFile(path.Join(code, "ipv6", "router"), []byte(spoc), 0644)
		os.WriteFile(path.Join(code, "ipv6", "router.info"), info, 0644)
	} else {
		os.WriteFile(path.Join(code, "router"), []byte(spoc), 0644)
		os.WriteFile(path.Join(code, "router.info"), info, 0644)
	}
	os.WriteFile(path.Join(base, "credentials"), []byte("* netspoc "+device.VerifPassword+"\n"), 0644)
	for _, d := range []string{"lock", "status", "history"} {
		os.MkdirAll(path.Join(base, d), 0755)
	}
	statusFile := path.Join(base, "status", "router")
	historyFile := path.Join(base, "history", "router")
	os.WriteFile(statusFile, []byte(`{"approve":{"result":"OK","policy":"p0","time":1},"compare":{"result":"UPTODATE","policy":"p0","time":2}}`), 0644)
	os.WriteFile(historyFile, []byte("PREVIOUS HISTORY\n"), 0644)
	lockFile := path.Join(base, "lock", "router")
	logDir := path.Join(p1, "log")

	sc.LockFile = lockFile
	dev := vfsim.NewDevice(sc)
	traceFile := path.Join(base, "trace")
	if vf.Symbolic() {
		dev.Probe = func() bool { return vf.TryLock(lockFile) }
		vf.Hook("expect.send", dev.Send)
		vf.Hook("expect.expect", dev.Expect)
	} else {
		scf := path.Join(base, "scenario.json")
		data, _ := json.Marshal(sc)
		os.WriteFile(scf, data, 0644)
		os.Setenv("SIMULATE_ROUTER", "/verif/bin/simdev "+scf+" "+traceFile)
		os.Unsetenv("TEST_TIME")
	}
	if contended {
		vf.HoldLock(lockFile)
	}
	var rc int
	var stdout string
	stderr := vf.CaptureStderr(func() {
		stdout = vf.CaptureStdout(func() {
			if frontEnd == "do-approve" {
				os.Args = []string{"do-approve", action, "router"}
				rc = Main()
			} else {
				args := []string{"drc", "-L", logDir}
				if action == "compare" {
					args = append(args, "-C")
				}
				switch spelling {
				case "absolute path":
					args = append(args, path.Join(code, "router"))
				case "relative path":
					os.Chdir(p1)
					args = append(args, "code/router")
				case "ipv6 path":
					args = append(args, path.Join(code, "ipv6", "router"))
				}
				os.Args = args
				rc = drc.Main()
			}
		})
	})
	var tr []string
	lockFree := dev.LockFree
	if !vf.Symbolic() {
		if data, err := os.ReadFile(traceFile); err == nil && len(data) > 0 {
			for _, l := range strings.Split(strings.TrimSuffix(string(data), "\n"), "\n") {
				if l == "<<LOCK-FREE>>" {
					lockFree = true
				} else {
					tr = append(tr, l)
				}
			}
		}
	} else {
		tr = dev.Sent
	}
	vf.Note("rc=", rc, "stderr:", stderr, "stdout:", stdout, "transcript:", strings.Join(tr, " | "))
	sdata, _ := os.ReadFile(statusFile)
	hdata, _ := os.ReadFile(historyFile)
	if contended {
		vf.Cover("contender while the device is held")
		vf.Assert(strings.Contains(stderr, "Approve in progress"), "C12: contender does not report 'Approve in progress'")
		vf.Assert(rc == 1, "C12: contender does not exit with status 1")
		vf.Assert(len(tr) == 0, "C12: contender talked to the device")
		vf.Assert(strings.HasPrefix(string(sdata), `{"approve":{"result":"OK","policy":"p0"`), "C12: contender changed the status file")
		vf.Assert(string(hdata) == "PREVIOUS HISTORY\n", "C12: contender wrote to the history file")
		for _, ext := range []string{".login", ".config", ".change", ".cmp", ".drc", ".compare"} {
			_, err := os.Stat(path.Join(logDir, "router"+ext))
			vf.Assert(err != nil, "C12: contender created a log file")
		}
		return
	}
	vf.Cover("holder")
	vf.Assert(len(tr) > 0, "C12: harness: device never contacted")
	vf.Assert(!lockFree, "C12: device contacted while the lock "+"basedir/lock/<device> is not held ("+frontEnd+", "+spelling+")")
	vf.Assert(vf.TryLock(lockFile), "C12: lock still held after the run ended")
}
