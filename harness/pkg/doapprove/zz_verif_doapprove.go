package doapprove

// do-approve level of C09 (status file, history), C11 and C17: the real
// doapprove.Main runs against the ASA simulator with one symbolic fault.

import (
	"encoding/json"
	"os"
	"path"
	"strings"

	"github.com/hknutzen/Netspoc-Approve/go/pkg/device"
	"github.com/hknutzen/Netspoc-Approve/go/pkg/vf"
	"github.com/hknutzen/Netspoc-Approve/go/pkg/vfsim"
)

type verifStatus struct {
	Approve struct{ Result, Policy string } `json:"approve"`
	Compare struct{ Result, Policy string } `json:"compare"`
}

// VerifDoApprove: param action=approve|compare.
func VerifDoApprove() {
	action := vf.Param("action", "approve")
	sc, spoc, changes := device.VerifASAParts()
	kind := device.VerifPickFault(sc, 22+len(changes))
	base := vf.TempDir()
	os.Setenv("HOME", base)
	os.WriteFile(path.Join(base, ".netspoc-approve"),
		[]byte("basedir = "+base+"\ncheckbanner = NetSPoC\nsystemuser = netspoc\ntimeout = 1\nlogin_timeout = 1\n"), 0644)
	code := path.Join(base, "policies", "p1", "code")
	os.MkdirAll(code, 0755)
	os.Symlink("p1", path.Join(base, "policies", "current"))
	os.WriteFile(path.Join(code, "router"), []byte(spoc), 0644)
	os.WriteFile(path.Join(code, "router.info"), []byte(`{"model":"ASA","name_list":["router"],"ip_list":["10.1.13.33"]}`), 0644)
	os.WriteFile(path.Join(base, "credentials"), []byte("* netspoc "+device.VerifPassword+"\n"), 0644)
	for _, d := range []string{"lock", "status", "history"} {
		os.MkdirAll(path.Join(base, d), 0755)
	}
	dev := vfsim.NewDevice(sc)
	traceFile := path.Join(base, "trace")
	if vf.Symbolic() {
		vf.Hook("expect.send", dev.Send)
		vf.Hook("expect.expect", dev.Expect)
	} else {
		scf := path.Join(base, "scenario.json")
		data, _ := json.Marshal(sc)
		os.WriteFile(scf, data, 0644)
		os.Setenv("SIMULATE_ROUTER", "/verif/bin/simdev "+scf+" "+traceFile)
		os.Unsetenv("TEST_TIME")
	}
	os.Args = []string{"do-approve", action, "router"}
	var rc int
	var stdout string
	stderr := vf.CaptureStderr(func() {
		stdout = vf.CaptureStdout(func() { rc = Main() })
	})
	var tr []string
	if vf.Symbolic() {
		tr = dev.Sent
	} else if data, err := os.ReadFile(traceFile); err == nil && len(data) > 0 {
		tr = strings.Split(strings.TrimSuffix(string(data), "\n"), "\n")
	}
	vf.Note("rc=", rc, "transcript:", strings.Join(tr, " | "))
	vf.Note("stderr:", stderr, "stdout:", stdout)

	var st verifStatus
	sdata, _ := os.ReadFile(path.Join(base, "status", "router"))
	json.Unmarshal(sdata, &st)
	hdata, _ := os.ReadFile(path.Join(base, "history", "router"))
	hist := strings.Split(strings.TrimSuffix(string(hdata), "\n"), "\n")
	lastHist := hist[len(hist)-1]
	vf.Note("status:", string(sdata), "history end:", lastHist)

	fp := vf.FixInt(sc.FaultPos)
	mustFail := device.VerifMustFail("ASA", kind, fp, tr, changes)
	isChange := func(l string) bool {
		for _, c := range changes {
			if c == l {
				return true
			}
		}
		return false
	}
	// C17: password in no sink (history, status, logs, stdout, stderr)
	sinks := map[string]string{"stderr": stderr, "stdout": stdout, "status file": string(sdata), "history": string(hdata)}
	for _, ext := range []string{".login", ".config", ".change", ".cmp", ".drc", ".compare"} {
		if d, err := os.ReadFile(path.Join(base, "policies", "p1", "log", "router"+ext)); err == nil {
			sinks["log "+ext] = string(d)
		}
	}
	for name, text := range sinks {
		vf.Assert(!strings.Contains(text, device.VerifPassword), "C17: do-approve: login password appears in "+name)
	}
	if action == "compare" {
		for _, l := range tr {
			vf.Assert(!isChange(l), "C11: do-approve compare sent a change command")
			vf.Assert(l != "write memory", "C11: do-approve compare saved the configuration")
		}
		// the simulated device always differs from the target: DIFF, or DIFF because of errors
		if len(tr) > 0 {
			vf.Assert(st.Compare.Result == "DIFF", "C09: do-approve compare: status is not DIFF although device differs or the run failed")
		}
		if mustFail {
			vf.Cover("failure injected")
			vf.Assert(strings.Contains(lastHist, "END: FAILED"), "C09: do-approve compare: history does not end with END: FAILED after a device-side failure")
			vf.Assert(rc != 0, "C09: do-approve compare: exit status 0 after a device-side failure")
		}
		vf.Cover("compare run checked")
		return
	}
	if mustFail {
		vf.Cover("failure injected")
		vf.Assert(rc != 0, "C09: do-approve approve: exit status 0 after a device-side failure")
		vf.Assert(st.Approve.Result == "FAILED", "C09: do-approve approve: status file does not say FAILED after a device-side failure")
		vf.Assert(strings.Contains(lastHist, "END: FAILED"), "C09: do-approve approve: history does not end with END: FAILED after a device-side failure")
	}
	if st.Approve.Result == "OK" {
		vf.Cover("OK recorded")
		pos := 0
		saved := false
		for _, l := range tr {
			if pos < len(changes) && l == changes[pos] {
				pos++
			}
			if l == "write memory" {
				saved = true
			}
		}
		reached := fp >= 0 && fp < len(tr)
		corrupted := reached && tr[fp] == "write term"
		vf.Assert(corrupted || pos == len(changes), "C09: do-approve approve: OK recorded although not every change command was sent")
		vf.Assert(saved, "C09: do-approve approve: OK recorded without 'write memory'")
		vf.Assert(!mustFail, "C09: do-approve approve: OK recorded although a device-side failure occurred")
		vf.Assert(rc == 0 && strings.Contains(lastHist, "END: OK"), "C09: do-approve approve: OK in status but not in exit status / history")
	}
}
