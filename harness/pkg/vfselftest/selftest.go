// Package vfselftest exercises the gosx engine on small functions with
// known verdicts.
package vfselftest

import (
	"fmt"
	"sort"
	"strings"

	"github.com/hknutzen/Netspoc-Approve/go/pkg/vf"
)

var menu = []string{"permit ip any any", "deny ip any any", "remark x", "permit tcp host 1.1.1.1 any"}

func action(s string) string {
	a, _, _ := strings.Cut(s, " ")
	return a
}

// HoldsSimple: every path's assertion is valid.
func HoldsSimple() {
	n := vf.Int("n", 0, 3)
	var l []string
	for i := 0; i < n; i++ {
		l = append(l, vf.Pick(fmt.Sprintf("l%d", i), menu))
	}
	cnt := 0
	for _, s := range l {
		if action(s) == "permit" {
			cnt++
		}
	}
	vf.Assert(cnt <= n, "count bounded")
	if cnt == 3 {
		vf.Cover("three permits")
	}
	m := map[string]int{}
	for _, s := range l {
		m[s]++
	}
	total := 0
	for _, c := range m {
		total += c
	}
	vf.Assert(total == n, "map counts")
	sort.Strings(l)
	for i := 1; i < len(l); i++ {
		vf.Assert(l[i-1] <= l[i], "sorted")
	}
}

// FailsSimple: the assertion is violated exactly when both picks are equal deny lines.
func FailsSimple() {
	a := vf.Pick("a", menu)
	b := vf.Pick("b", menu)
	if a == b && action(a) == "deny" {
		vf.Cover("bad case")
		vf.Assert(false, "equal deny lines")
	}
}

// PanicsSometimes: index out of range for one menu entry.
func PanicsSometimes() {
	a := vf.Pick("a", menu)
	w := strings.Fields(a)
	_ = w[2]
}

// TermClock: strictly increasing symbolic clock.
func TermClock() {
	t1 := vf.Int64("t1")
	t2 := vf.Int64("t2")
	vf.Assume(t1 > 0 && t1 < t2)
	vf.Assert(t2 > 1, "t2>1")
	if t2-t1 == 5 {
		vf.Cover("diff5")
	}
	vf.Assert(t2 != 7, "t2 may be 7") // must be violated
}
