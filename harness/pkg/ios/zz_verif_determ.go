package ios

// C16 harness (IOS): crypto map entries with the same peer on the device
// and / or in the target create ties in matchCryptoMap; three runs under
// different map iteration schedules must produce the same script.

import (
	"strconv"
	"strings"

	"github.com/hknutzen/Netspoc-Approve/go/pkg/vf"
)

func iDetermSide(b *strings.Builder, t, mapName string, seqs []string) bool {
	n := vf.FixInt(vf.Int(t+".entries", 0, 3))
	if n == 0 {
		return false
	}
	dup := false
	var used []int
	for i := 0; i < n; i++ {
		p := vf.FixInt(vf.Int(t+".e"+strconv.Itoa(i)+".peer", 0, 1))
		for _, u := range used {
			dup = dup || u == p
		}
		used = append(used, p)
		b.WriteString("crypto map " + mapName + " " + seqs[i] + " ipsec-isakmp\n set peer " + iPeers[p] + "\n")
	}
	if dup {
		vf.Cover("two crypto map entries with the same peer (" + map[string]string{"a": "device", "b": "target"}[t] + ")")
	}
	return true
}

func VerifDeterminismIOS() {
	vf.Assumption("map iteration schedules explored by the executor: insertion order, reversed, rotated by one (native replay: 200 runs under Go's random map order)")
	vf.Assumption("IOS: crypto map with 0..3 entries per side over 2 peers, so that two entries may name the same peer")
	var a, b strings.Builder
	aHas := iDetermSide(&a, "a", "VPN", []string{"1", "2", "3"})
	bHas := iDetermSide(&b, "b", "crypto-Ethernet1", []string{"1", "2", "3"})
	a.WriteString("interface Ethernet1\n ip address 10.1.2.1 255.255.255.0\n")
	b.WriteString("interface Ethernet1\n ip address 10.1.2.1 255.255.255.0\n")
	if aHas {
		a.WriteString(" crypto map VPN\n")
	}
	if bHas {
		b.WriteString(" crypto map crypto-Ethernet1\n")
	}
	devText, tgtText := a.String(), b.String()
	vf.Note("DEVICE:\n"+devText, "TARGET:\n"+tgtText)
	runs := 3
	if !vf.Symbolic() {
		runs = 200
	}
	first := ""
	for r := 0; r < runs; r++ {
		vf.MapOrder(r % 3)
		s := Setup()
		res := ""
		c1, err := s.ParseConfig([]byte(devText), "<device>")
		if err == nil {
			var c2 interface{}
			_ = c2
			t2, err2 := s.ParseConfig([]byte(tgtText), "router")
			err = err2
			if err == nil {
				err = s.GetChanges(c1, t2)
			}
		}
		if err != nil {
			res = "ERR: " + err.Error()
		} else {
			res = strings.Join(s.Changes, "\n")
		}
		if r == 0 {
			first = res
			vf.Note("first run:", res)
			continue
		}
		if res != first {
			vf.Note("run "+strconv.Itoa(r)+":", res)
		}
		vf.Assert(res == first, "C16: IOS: change script depends on map iteration order (crypto map entries)")
	}
	vf.MapOrder(0)
}
