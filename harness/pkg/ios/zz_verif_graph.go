package ios

// Object-graph harness for IOS (C02, C07, C08): interfaces with ACL
// bindings and crypto maps (entries keyed by peer, in/out filter ACLs,
// sequence numbers with gaps), an interface unknown to Netspoc with its own
// ACL / crypto map. Device and target are assembled from solver-selected
// blocks, parsed by the real parser, planned by the real GetChanges; the
// script is executed on a text-level model of the IOS configuration store.

import (
	"sort"
	"strconv"
	"strings"

	"github.com/hknutzen/Netspoc-Approve/go/pkg/vf"
)

type iLine struct {
	seq  int
	text string
}

type iACL struct {
	name  string
	lines []iLine
}

type iEntry struct { // crypto map entry
	name  string
	seq   int
	peers []string
	in    string
	out   string
}

type iIntf struct {
	name    string
	vrf     string
	address string
	in, out string
	crypto  string
}

type iModel struct {
	acls    []*iACL
	entries []*iEntry
	intfs   []*iIntf
	// an 'exit' at configuration level has left configuration mode
	leftConfig bool
	// ACLs and crypto maps of interfaces unknown to Netspoc (C07)
	outsideACL, outsideMap map[string]bool
	// mode
	mAcl   *iACL
	mEntry *iEntry
	mIntf  *iIntf
}

func (m *iModel) acl(name string) *iACL {
	for _, a := range m.acls {
		if a.name == name {
			return a
		}
	}
	return nil
}

func (m *iModel) intf(name string) *iIntf {
	for _, i := range m.intfs {
		if i.name == name {
			return i
		}
	}
	return nil
}

func (m *iModel) entry(name string, seq int) *iEntry {
	for _, e := range m.entries {
		if e.name == name && e.seq == seq {
			return e
		}
	}
	return nil
}

func (m *iModel) mapExists(name string) bool {
	for _, e := range m.entries {
		if e.name == name {
			return true
		}
	}
	return false
}

func (m *iModel) reject(why, cmd string) {
	vf.Note("REJECT:", why, "at:", cmd)
	vf.Assert(false, "C08: IOS rejects command: "+why)
}

func (m *iModel) aclReferrers(name string) []string {
	var l []string
	for _, i := range m.intfs {
		if i.in == name || i.out == name {
			l = append(l, "interface "+i.name)
		}
	}
	for _, e := range m.entries {
		if e.in == name || e.out == name {
			l = append(l, "crypto map "+e.name+" "+strconv.Itoa(e.seq))
		}
	}
	return l
}

func (m *iModel) leave() { m.mAcl, m.mEntry, m.mIntf = nil, nil, nil }

func iAtoi(s string) (int, bool) {
	n, err := strconv.Atoi(s)
	return n, err == nil
}

func (m *iModel) exec(c string) {
	w := strings.Fields(c)
	if len(w) == 0 {
		return
	}
	if m.leftConfig {
		m.reject("command sent after configuration mode was left by a stray exit", c)
		return
	}
	if c == "exit" {
		if m.mAcl == nil && m.mEntry == nil && m.mIntf == nil {
			m.reject("exit outside of a configuration sub-mode", c)
			m.leftConfig = true
		}
		m.leave()
		return
	}
	neg := w[0] == "no"
	bw := w
	if neg {
		bw = w[1:]
	}
	body := strings.Join(bw, " ")
	switch {
	case len(bw) == 6 && bw[0] == "ip" && bw[1] == "access-list" && bw[2] == "resequence":
		m.leave()
		a := m.acl(bw[3])
		if a == nil {
			m.reject("resequence of an access-list that does not exist", c)
			return
		}
		start, _ := iAtoi(bw[4])
		step, _ := iAtoi(bw[5])
		for i := range a.lines {
			a.lines[i].seq = start + i*step
		}
		return
	case len(bw) == 4 && bw[0] == "ip" && bw[1] == "access-list" && bw[2] == "extended":
		m.leave()
		a := m.acl(bw[3])
		if neg {
			if m.outsideACL[bw[3]] {
				vf.Assert(false, "C07: IOS: command deletes an ACL of an interface unknown to Netspoc")
			}
			if a == nil {
				m.reject("access-list to be deleted does not exist", c)
				return
			}
			if r := m.aclReferrers(a.name); len(r) > 0 {
				vf.Note("still referenced by:", strings.Join(r, ", "))
				m.reject("deleted access-list is still referenced", c)
				return
			}
			var keep []*iACL
			for _, x := range m.acls {
				if x != a {
					keep = append(keep, x)
				}
			}
			m.acls = keep
			return
		}
		if a == nil {
			a = &iACL{name: bw[3]}
			m.acls = append(m.acls, a)
		}
		m.mAcl = a
		return
	case len(bw) == 5 && bw[0] == "crypto" && bw[1] == "map" && bw[4] == "ipsec-isakmp":
		m.leave()
		seq, _ := iAtoi(bw[3])
		e := m.entry(bw[2], seq)
		if neg {
			if m.outsideMap[bw[2]] {
				vf.Assert(false, "C07: IOS: command deletes a crypto map entry of an interface unknown to Netspoc")
			}
			if e == nil {
				m.reject("crypto map entry to be deleted does not exist", c)
				return
			}
			var keep []*iEntry
			for _, x := range m.entries {
				if x != e {
					keep = append(keep, x)
				}
			}
			m.entries = keep
			return
		}
		if e == nil {
			e = &iEntry{name: bw[2], seq: seq}
			m.entries = append(m.entries, e)
		}
		m.mEntry = e
		return
	case len(bw) == 2 && bw[0] == "interface":
		m.leave()
		i := m.intf(bw[1])
		if i == nil {
			m.reject("interface does not exist", c)
			return
		}
		m.mIntf = i
		return
	}
	// sub-commands
	switch {
	case m.mAcl != nil:
		a := m.mAcl
		if neg {
			if n, ok := iAtoi(bw[0]); ok && len(bw) == 1 {
				for i, l := range a.lines {
					if l.seq == n {
						a.lines = append(append([]iLine{}, a.lines[:i]...), a.lines[i+1:]...)
						return
					}
				}
				m.reject("sequence number to be deleted not found", c)
				return
			}
			for i, l := range a.lines {
				if l.text == body {
					a.lines = append(append([]iLine{}, a.lines[:i]...), a.lines[i+1:]...)
					return
				}
			}
			m.reject("access-list entry to be deleted not found", c)
			return
		}
		seq := 0
		text := body
		if n, ok := iAtoi(bw[0]); ok {
			seq = n
			text = strings.Join(bw[1:], " ")
		}
		if !(strings.HasPrefix(text, "permit ") || strings.HasPrefix(text, "deny ") || strings.HasPrefix(text, "remark ")) {
			m.reject("command is not an access-list entry", c)
			return
		}
		for _, l := range a.lines {
			if l.text == text && !strings.HasPrefix(text, "remark ") {
				m.reject("access-list already contains this entry", c)
				return
			}
			if seq != 0 && l.seq == seq {
				m.reject("sequence number already in use", c)
				return
			}
		}
		if seq == 0 {
			last := 0
			if len(a.lines) > 0 {
				last = a.lines[len(a.lines)-1].seq
			}
			a.lines = append(a.lines, iLine{last + 10, text})
			return
		}
		pos := len(a.lines)
		for i, l := range a.lines {
			if l.seq > seq {
				pos = i
				break
			}
		}
		nl := append([]iLine{}, a.lines[:pos]...)
		nl = append(nl, iLine{seq, text})
		a.lines = append(nl, a.lines[pos:]...)
		return
	case m.mEntry != nil:
		e := m.mEntry
		switch {
		case len(bw) == 3 && bw[0] == "set" && bw[1] == "peer":
			idx := -1
			for i, p := range e.peers {
				if p == bw[2] {
					idx = i
				}
			}
			if neg {
				if idx < 0 {
					m.reject("peer to be removed is not set", c)
					return
				}
				e.peers = append(append([]string{}, e.peers[:idx]...), e.peers[idx+1:]...)
				return
			}
			if idx >= 0 {
				m.reject("peer is already set", c)
				return
			}
			e.peers = append(e.peers, bw[2])
			return
		case len(bw) == 5 && bw[0] == "set" && bw[1] == "ip" && bw[2] == "access-group":
			p := &e.in
			if bw[4] == "out" {
				p = &e.out
			}
			if neg {
				if *p != bw[3] {
					m.reject("filter access-group to be removed is not set", c)
					return
				}
				*p = ""
				return
			}
			if m.acl(bw[3]) == nil {
				m.reject("reference to a missing access-list", c)
				return
			}
			*p = bw[3]
			return
		}
		m.reject("unknown sub-command of crypto map", c)
		return
	case m.mIntf != nil:
		i := m.mIntf
		switch {
		case len(bw) == 4 && bw[0] == "ip" && bw[1] == "access-group":
			p := &i.in
			if bw[3] == "out" {
				p = &i.out
			}
			if neg {
				if *p != bw[2] {
					m.reject("access-group to be removed is not bound", c)
					return
				}
				*p = ""
				return
			}
			if m.acl(bw[2]) == nil {
				m.reject("reference to a missing access-list", c)
				return
			}
			*p = bw[2]
			return
		case len(bw) == 3 && bw[0] == "crypto" && bw[1] == "map":
			if neg {
				if i.crypto != bw[2] {
					m.reject("crypto map to be removed is not bound", c)
					return
				}
				i.crypto = ""
				return
			}
			if !m.mapExists(bw[2]) {
				m.reject("reference to a missing crypto map", c)
				return
			}
			i.crypto = bw[2]
			return
		}
		m.reject("unknown sub-command of interface", c)
		return
	}
	m.reject("sub-command outside of a configuration sub-mode", c)
}

func (m *iModel) text() string {
	var b strings.Builder
	for _, a := range m.acls {
		b.WriteString("ip access-list extended " + a.name + "\n")
		for _, l := range a.lines {
			b.WriteString(" " + l.text + "\n")
		}
	}
	for _, e := range m.entries {
		b.WriteString("crypto map " + e.name + " " + strconv.Itoa(e.seq) + " ipsec-isakmp\n")
		if e.in != "" {
			b.WriteString(" set ip access-group " + e.in + " in\n")
		}
		if e.out != "" {
			b.WriteString(" set ip access-group " + e.out + " out\n")
		}
		for _, p := range e.peers {
			b.WriteString(" set peer " + p + "\n")
		}
	}
	for _, i := range m.intfs {
		b.WriteString("interface " + i.name + "\n")
		if i.vrf != "" {
			b.WriteString(" ip vrf forwarding " + i.vrf + "\n")
		}
		b.WriteString(" ip address " + i.address + "\n")
		if i.in != "" {
			b.WriteString(" ip access-group " + i.in + " in\n")
		}
		if i.out != "" {
			b.WriteString(" ip access-group " + i.out + " out\n")
		}
		if i.crypto != "" {
			b.WriteString(" crypto map " + i.crypto + "\n")
		}
	}
	return b.String()
}

func iParse(text string) *iModel {
	m := &iModel{}
	for _, l := range strings.Split(text, "\n") {
		if strings.TrimSpace(l) == "" {
			continue
		}
		w := strings.Fields(l)
		if l[0] != ' ' {
			m.leave()
			switch {
			case w[0] == "ip" && w[1] == "access-list":
				m.mAcl = &iACL{name: w[3]}
				m.acls = append(m.acls, m.mAcl)
			case w[0] == "crypto":
				seq, _ := iAtoi(w[3])
				m.mEntry = &iEntry{name: w[2], seq: seq}
				m.entries = append(m.entries, m.mEntry)
			case w[0] == "interface":
				m.mIntf = &iIntf{name: w[1]}
				m.intfs = append(m.intfs, m.mIntf)
			}
			continue
		}
		switch {
		case m.mAcl != nil:
			last := 0
			if n := len(m.mAcl.lines); n > 0 {
				last = m.mAcl.lines[n-1].seq
			}
			m.mAcl.lines = append(m.mAcl.lines, iLine{last + 10, strings.Join(w, " ")})
		case m.mEntry != nil:
			if w[1] == "peer" {
				m.mEntry.peers = append(m.mEntry.peers, w[2])
			} else if w[1] == "ip" && w[4] == "in" {
				m.mEntry.in = w[3]
			} else if w[1] == "ip" && w[4] == "out" {
				m.mEntry.out = w[3]
			}
		case m.mIntf != nil:
			switch {
			case w[0] == "ip" && w[1] == "vrf":
				m.mIntf.vrf = w[3]
			case w[0] == "ip" && w[1] == "address":
				m.mIntf.address = strings.Join(w[2:], " ")
			case w[0] == "ip" && w[1] == "access-group" && w[3] == "in":
				m.mIntf.in = w[2]
			case w[0] == "ip" && w[1] == "access-group" && w[3] == "out":
				m.mIntf.out = w[2]
			case w[0] == "crypto":
				m.mIntf.crypto = w[2]
			}
		}
	}
	m.leave()
	return m
}

func (m *iModel) aclContent(name string) string {
	if name == "" {
		return "-"
	}
	a := m.acl(name)
	if a == nil {
		return "<missing " + name + ">"
	}
	var l []string
	for _, x := range a.lines {
		l = append(l, x.text)
	}
	return "{" + strings.Join(l, ";") + "}"
}

// name-free description of what an interface does
func (m *iModel) describe(i *iIntf) string {
	s := "interface " + i.name + " in=" + m.aclContent(i.in) + " out=" + m.aclContent(i.out) + " crypto="
	if i.crypto == "" {
		return s + "-"
	}
	var l []string
	for _, e := range m.entries {
		if e.name == i.crypto {
			p := append([]string{}, e.peers...)
			sort.Strings(p)
			l = append(l, "[peers="+strings.Join(p, ",")+" in="+m.aclContent(e.in)+" out="+m.aclContent(e.out)+"]")
		}
	}
	sort.Strings(l)
	return s + strings.Join(l, "")
}

// textual snapshot of an interface and everything it references
func (m *iModel) snapshot(i *iIntf) string {
	s := "interface " + i.name + " " + i.in + "=" + m.aclContent(i.in) + " " + i.out + "=" + m.aclContent(i.out) + " crypto " + i.crypto
	for _, e := range m.entries {
		if e.name == i.crypto && i.crypto != "" {
			s += " " + strconv.Itoa(e.seq) + ":" + strings.Join(e.peers, ",") + " " + e.in + "=" + m.aclContent(e.in) + " " + e.out + "=" + m.aclContent(e.out)
		}
	}
	return s
}

// ---------------------------------------------------------------------------

var iFilters = []string{
	" permit tcp host 10.127.18.1 host 10.1.11.40 eq 48\n deny ip any any\n",
	" permit tcp host 10.127.18.1 host 10.1.11.40 eq 49\n deny ip any any\n",
}

var iPeers = []string{"10.156.4.1", "10.156.4.2", "10.156.4.3"}

// crypto map with up to two entries; seqs gives the sequence numbers used
func iCryptoSide(b *strings.Builder, t, mapName, sfx string, seqChoices [][]string, filterVariants int) bool {
	n := vf.FixInt(vf.Int(t+".entries", 0, 2))
	if n == 0 {
		return false
	}
	seqs := seqChoices[0]
	if len(seqChoices) > 1 && vf.Bool(t+".gapInSeq") {
		seqs = seqChoices[1]
		vf.Cover("crypto map with a gap in its sequence numbers")
	}
	prev := -1
	for i := 0; i < n; i++ {
		ti := t + ".e" + strconv.Itoa(i)
		p := vf.FixInt(vf.Int(ti+".peer", 0, 2))
		vf.Assume(p > prev)
		prev = p
		seq := seqs[i]
		filter := ""
		if f := vf.FixInt(vf.Int(ti+".filter", 0, filterVariants)); f > 0 {
			filter = "crypto-filter-Ethernet1-" + seq + sfx
			b.WriteString("ip access-list extended " + filter + "\n" + iFilters[f-1])
		}
		b.WriteString("crypto map " + mapName + " " + seq + " ipsec-isakmp\n")
		if filter != "" {
			b.WriteString(" set ip access-group " + filter + " in\n")
		}
		b.WriteString(" set peer " + iPeers[p] + "\n")
	}
	return true
}

func VerifIOSGraph() {
	vf.Assumption("IOS object graph: interface Ethernet0 with inbound ACL (optionally bound at Ethernet1 too, while the target gives Ethernet1 its own ACL with the old or another content), 0..2 interfaces of a VRF the target does not use beside a managed VRF, interface Ethernet1 with a crypto map of 0..2 entries per side (3 peers, optional inbound filter ACL in 2 variants, device sequence numbers 1,2 or 2,3), optional interface Ethernet2 unknown to Netspoc with its own ACL (name with or without -DRC-) or crypto map; each path is one concrete pair chosen by the solver")
	vf.Assumption("IOS model (text level): sub-commands need their mode, numbered ACL inserts need a free sequence number and a new entry, 'no' forms need what they remove, bindings and filters may only name existing ACLs / crypto maps, an ACL that is still referenced cannot be deleted")
	var a, b strings.Builder
	// managed interface with ACL
	e0 := " permit tcp any host 10.1.1.10 eq 22\n deny ip any any\n"
	a.WriteString("ip access-list extended e0_in-DRC-0\n" + e0)
	if vf.Bool("b.e0.changed") {
		b.WriteString("ip access-list extended e0_in\n permit tcp any host 10.1.1.10 eq 22\n permit tcp any host 10.1.1.10 eq 80\n deny ip any any\n")
	} else {
		b.WriteString("ip access-list extended e0_in\n" + e0)
	}
	part := vf.Param("part", "crypto")
	// the ACL of Ethernet0 may be bound at Ethernet1 as well; the target
	// gives Ethernet1 an ACL of its own (old content or another one)
	e1Shares, e1Has := false, false
	if part == "shared" {
		vf.Assumption("part shared: the device ACL of Ethernet0 may be bound at Ethernet1 too; the target gives Ethernet1 no ACL, an ACL with the old content or with another content")
		e1Shares = vf.Bool("a.e1.sharesACL")
		e1Has = vf.Bool("b.e1.hasACL")
		if e1Has {
			if vf.Bool("b.e1.aclDiffers") {
				b.WriteString("ip access-list extended e1_in\n permit tcp any host 10.1.2.20 eq 25\n deny ip any any\n")
			} else {
				b.WriteString("ip access-list extended e1_in\n" + e0)
			}
		}
	}
	// crypto maps
	aHas, bHas := false, false
	if part == "crypto" {
		aHas = iCryptoSide(&a, "a", "VPN", "-DRC-0", [][]string{{"1", "2"}, {"2", "3"}}, 1)
		bHas = iCryptoSide(&b, "b", "crypto-Ethernet1", "", [][]string{{"1", "2"}}, 2)
	}
	a.WriteString("interface Ethernet0\n ip address 10.1.1.1 255.255.255.0\n ip access-group e0_in-DRC-0 in\n")
	b.WriteString("interface Ethernet0\n ip address 10.1.1.1 255.255.255.0\n ip access-group e0_in in\n")
	a.WriteString("interface Ethernet1\n ip address 10.1.2.1 255.255.255.0\n")
	b.WriteString("interface Ethernet1\n ip address 10.1.2.1 255.255.255.0\n")
	if e1Shares {
		a.WriteString(" ip access-group e0_in-DRC-0 in\n")
		vf.Cover("one device ACL bound at two interfaces")
	}
	if e1Has {
		b.WriteString(" ip access-group e1_in in\n")
	}
	if aHas {
		a.WriteString(" crypto map VPN\n")
		vf.Cover("crypto map on device")
	}
	if bHas {
		b.WriteString(" crypto map crypto-Ethernet1\n")
		vf.Cover("crypto map in target")
	}
	// interface unknown to Netspoc
	unk := 0
	if part == "crypto" || part == "shared" {
		unk = vf.FixInt(vf.Int("a.unknownInterface", 0, 3))
	}
	switch unk {
	case 1:
		a.WriteString("ip access-list extended e2_in\n permit ip any host 10.1.3.3\n deny ip any any\n")
		a.WriteString("interface Ethernet2\n ip address 10.1.3.1 255.255.255.0\n ip access-group e2_in in\n")
		vf.Cover("interface unknown to Netspoc on device")
	case 2:
		a.WriteString("ip access-list extended e2_in-DRC-0\n permit ip any host 10.1.3.3\n deny ip any any\n")
		a.WriteString("interface Ethernet2\n ip address 10.1.3.1 255.255.255.0\n ip access-group e2_in-DRC-0 in\n")
		vf.Cover("interface unknown to Netspoc on device")
	case 3:
		a.WriteString("ip access-list extended crypto-filter-e2-1-DRC-0\n permit tcp host 10.127.19.1 host 10.1.11.40 eq 49\n deny ip any any\n")
		a.WriteString("ip access-list extended crypto-filter-e2-2-DRC-0\n permit tcp host 10.127.19.2 host 10.1.11.40 eq 49\n deny ip any any\n")
		a.WriteString("crypto map crypto-e2-DRC-0 1 ipsec-isakmp\n set ip access-group crypto-filter-e2-1-DRC-0 in\n set peer 10.156.5.1\n")
		a.WriteString("crypto map crypto-e2-DRC-0 2 ipsec-isakmp\n set ip access-group crypto-filter-e2-2-DRC-0 in\n set peer 10.156.5.2\n")
		a.WriteString("interface Ethernet2\n ip address 10.1.3.1 255.255.255.0\n crypto map crypto-e2-DRC-0\n")
		vf.Cover("interface unknown to Netspoc on device")
		vf.Cover("unknown interface with crypto map of two entries")
	}
	// VRFs: VRF 002 is used by the target, VRF 001 only exists on the device
	if part == "vrf" {
		vf.Assumption("part vrf: interface Ethernet5 in VRF 002 on both sides; 1..2 interfaces of VRF 001, which the target does not use, each with its own ACL (generated name)")
		vrfs := vf.FixInt(vf.Int("a.unmanagedVRFInterfaces", 1, 2))
		mv := "interface Ethernet5\n ip vrf forwarding 002\n ip address 10.1.5.1 255.255.255.0\n"
		a.WriteString(mv)
		b.WriteString(mv)
		for k := 0; k < vrfs; k++ {
			n := strconv.Itoa(6 + k)
			a.WriteString("ip access-list extended e" + n + "_in-DRC-0\n permit ip any host 10.1." + n + ".3\n deny ip any any\n")
			a.WriteString("interface Ethernet" + n + "\n ip vrf forwarding 001\n ip address 10.1." + n + ".1 255.255.255.0\n ip access-group e" + n + "_in-DRC-0 in\n")
		}
		vf.Cover("interfaces of a VRF unknown to Netspoc on device")
		if vrfs == 2 {
			vf.Cover("two interfaces in the unmanaged VRF")
		}
	}
	devText, tgtText := a.String(), b.String()
	vf.Note("DEVICE:\n"+devText, "TARGET:\n"+tgtText)
	dev := iParse(devText)
	tgt := iParse(tgtText)
	s := Setup()
	c1, err := s.ParseConfig([]byte(devText), "<device>")
	if err != nil {
		vf.Assert(false, "C20: device configuration rejected: "+err.Error())
		return
	}
	c2, err := s.ParseConfig([]byte(tgtText), "router")
	if err != nil {
		vf.Assert(false, "C20: target configuration rejected: "+err.Error())
		return
	}
	if err := s.GetChanges(c1, c2); err != nil {
		vf.Assert(false, "C02: GetChanges failed on accepted input: "+err.Error())
		return
	}
	before := map[string]string{}
	dev.outsideACL, dev.outsideMap = map[string]bool{}, map[string]bool{}
	for _, i := range dev.intfs {
		if tgt.intf(i.name) == nil {
			before[i.name] = dev.snapshot(i)
			dev.outsideACL[i.in], dev.outsideACL[i.out] = true, true
			if i.crypto != "" {
				dev.outsideMap[i.crypto] = true
				for _, e := range dev.entries {
					if e.name == i.crypto {
						dev.outsideACL[e.in], dev.outsideACL[e.out] = true, true
					}
				}
			}
		}
	}
	delete(dev.outsideACL, "")
	if len(s.Changes) == 0 {
		vf.Cover("no change reported")
	} else {
		vf.Cover("changes emitted")
	}
	for _, chg := range s.Changes {
		for _, c := range strings.Split(chg, "\n") {
			vf.Note("CHG:", c)
			dev.exec(c)
		}
	}
	// C07: interfaces unknown to Netspoc and what they reference
	for _, i := range dev.intfs {
		if old, ok := before[i.name]; ok {
			vf.Cover("unknown interface checked")
			vf.Assert(dev.snapshot(i) == old, "C07: IOS: ACL or crypto map of an interface unknown to Netspoc was changed")
		}
	}
	// converge
	for _, ti := range tgt.intfs {
		di := dev.intf(ti.name)
		vf.Assert(dev.describe(di) == tgt.describe(ti), "C02: IOS: interface filters or crypto map entries after executing the script differ from the target")
	}
	dev.leave()
	s2 := Setup()
	d2, err := s2.ParseConfig([]byte(dev.text()), "<device>")
	if err != nil {
		vf.Assert(false, "C02: resulting device configuration rejected by the parser: "+err.Error())
		return
	}
	t2, _ := s2.ParseConfig([]byte(tgtText), "router")
	if err := s2.GetChanges(d2, t2); err != nil {
		vf.Assert(false, "C02: second GetChanges failed: "+err.Error())
		return
	}
	for _, c := range s2.Changes {
		vf.Note("CHG2:", c)
	}
	vf.Assert(len(s2.Changes) == 0, "C02: IOS: second compare still reports changes (interfaces / crypto maps)")
}
