package ios

import "github.com/hknutzen/Netspoc-Approve/go/pkg/cisco"

// Entry points: hand the IOS command description to the harnesses that live
// in package cisco (they need the unexported types).
func VerifIOSACL() { cisco.VerifIOSACL(cmdInfo) }

func VerifMergeACL() { cisco.VerifMergeACL(cmdInfo, "IOS") }

func VerifRoutesIOS() {
	cisco.VerifRoutes(cisco.VerifRouteAPI{Model: "IOS", Changes: func(device, target string) ([]string, error) {
		s := Setup()
		c1, err := s.ParseConfig([]byte(device), "<device>")
		if err != nil {
			return nil, err
		}
		c2, err := s.ParseConfig([]byte(target), "router")
		if err != nil {
			return nil, err
		}
		if err := s.GetChanges(c1, c2); err != nil {
			return nil, err
		}
		return s.Changes, nil
	}})
}
