package ios

import "github.com/hknutzen/Netspoc-Approve/go/pkg/cisco"

// Entry points: hand the IOS command description to the harnesses that live
// in package cisco (they need the unexported types).
func VerifIOSACL() { cisco.VerifIOSACL(cmdInfo) }

func VerifMergeACL() { cisco.VerifMergeACL(cmdInfo, "IOS") }
