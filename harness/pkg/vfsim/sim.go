// Package vfsim is a line-oriented simulator of an SSH device (ASA, IOS,
// Linux shell) for the dialogue harnesses.  Under the symbolic executor it
// is driven through the goexpect stubs (Send/Expect); for native replay the
// same code runs as an external process (tools/simdev) behind a real pty and
// the real goexpect library.
package vfsim

import (
	"regexp"
	"strconv"
	"strings"
)

// Fault kinds applied to the reply of the FaultPos-th received line.
const (
	FaultNone    = iota
	FaultOutput  // extra output text printed behind the echo
	FaultGarble  // the echo is garbled
	FaultStall   // echo, but no further answer (no prompt)
	FaultClose   // connection closed right behind the echo
	FaultNoEcho  // answer without echoing the command
	FaultReplace // the regular output of the command is replaced by FaultText
)

type Scenario struct {
	Name     string            // prompt is Name + "#"
	Preamble string            // "<!>" waits for a line and echoes it, "<!noecho>" does not echo
	Cmds     map[string]string // command -> output; may contain the markers as well
	// One fault: position counts all received lines, first line is 0.
	FaultPos  int
	FaultKind int
	FaultText string
	// Prompt printed behind every answer; default Name + "#"
	Prompt string
	// One asynchronous banner: inserted into the echo of the BannerPos-th
	// received line at byte offset BannerOffset (0 = in front of the echo,
	// len(line) = behind it; larger values are clipped).
	BannerPos    int
	BannerText   string
	BannerOffset int
	// Path of the lock file of this device; the simulator probes it on every
	// received line (C12).
	LockFile string
}

type Device struct {
	Sc    *Scenario
	Buf   string   // output not yet consumed by Expect
	Sent  []string // every line received from the tool, in order
	Dead  bool
	NRecv int
	// text still to be printed, split at markers; waiting for input if len > 0
	pending []string
	noecho  bool
	started bool
	partial string // incomplete line
	// Probe reports whether the device lock is free; LockFree is set if it
	// ever was while a line was received.
	Probe    func() bool
	LockFree bool
}

func NewDevice(sc *Scenario) *Device {
	d := &Device{Sc: sc}
	return d
}

func (d *Device) prompt() string {
	if d.Sc.Prompt != "" {
		return d.Sc.Prompt
	}
	return d.Sc.Name + "#"
}

var markerRE = regexp.MustCompile(`<!(noecho)?>`)

// emit prints text up to the next marker; the rest waits for input.
func (d *Device) emit(text string) {
	text = strings.ReplaceAll(text, "\n", "\r\n")
	loc := markerRE.FindStringIndex(text)
	if loc == nil {
		d.Buf += text
		return
	}
	d.Buf += text[:loc[0]]
	d.noecho = text[loc[0]:loc[1]] == "<!noecho>"
	d.pending = append([]string{text[loc[1]:]}, d.pending...)
}

func (d *Device) Start() {
	if !d.started {
		d.started = true
		d.emit(d.Sc.Preamble)
	}
}

// Send is called with everything the tool writes.  Returns an error text or "".
func (d *Device) Send(s string) string {
	d.Start()
	if d.Dead {
		return "write: broken pipe"
	}
	s = d.partial + s
	for {
		i := strings.Index(s, "\n")
		if i < 0 {
			break
		}
		line := s[:i]
		s = s[i+1:]
		d.recvLine(line)
		if d.Dead {
			return ""
		}
	}
	d.partial = s
	return ""
}

func (d *Device) recvLine(line string) {
	idx := d.NRecv
	d.NRecv++
	if d.Probe != nil && d.Probe() {
		d.LockFree = true
	}
	d.Sent = append(d.Sent, line)
	fault := FaultNone
	if idx == d.Sc.FaultPos {
		fault = d.Sc.FaultKind
	}
	if len(d.pending) > 0 {
		// input for a prompt inside some output
		rest := d.pending[0]
		d.pending = d.pending[1:]
		if !d.noecho {
			d.Buf += line
		}
		d.Buf += "\r\n"
		switch fault {
		case FaultStall:
			d.pending = nil
			return
		case FaultClose:
			d.Dead = true
			return
		case FaultOutput, FaultReplace:
			d.Buf += strings.ReplaceAll(d.Sc.FaultText, "\n", "\r\n")
		}
		d.emit(rest)
		if len(d.pending) == 0 && d.stalled() {
			return
		}
		return
	}
	lookup := strings.TrimPrefix(line, "do ")
	echo := line
	if d.Sc.BannerText != "" && idx == d.Sc.BannerPos {
		off := d.Sc.BannerOffset
		if off > len(line) {
			off = len(line)
		}
		echo = line[:off] + strings.ReplaceAll(d.Sc.BannerText, "\n", "\r\n") + line[off:]
	}
	switch fault {
	case FaultGarble:
		d.Buf += "%" + echo + "\r\n"
	case FaultNoEcho:
	default:
		d.Buf += echo + "\r\n"
	}
	switch fault {
	case FaultStall:
		return
	case FaultClose:
		d.Dead = true
		return
	}
	if lookup == "exit" {
		d.Dead = true
		return
	}
	out := d.Sc.Cmds[lookup]
	switch fault {
	case FaultOutput:
		out += d.Sc.FaultText
	case FaultReplace:
		out = d.Sc.FaultText
	}
	d.emit(out + d.prompt())
}

func (d *Device) stalled() bool { return false }

// Expect implements goexpect's Expect with PartialMatch(true): returns the
// buffer up to the end of the first match and keeps the rest, or all of the
// buffer and an error text.
func (d *Device) Expect(re string, timeoutNs int64) (string, string) {
	d.Start()
	rx := regexp.MustCompile(re)
	if loc := rx.FindStringIndex(d.Buf); loc != nil {
		out := d.Buf[:loc[1]]
		d.Buf = d.Buf[loc[1]:]
		return out, ""
	}
	out := d.Buf
	d.Buf = ""
	if d.Dead {
		return out, "expect: Process not running"
	}
	return out, "expect: timer expired after " + strconv.FormatInt(timeoutNs/1000000000, 10) + " seconds"
}

// Transcript returns the lines received so far.
func (d *Device) Transcript() []string { return d.Sent }
