package cisco

// ASA converge harness: one interface ACL with plain lines and lines that
// reference network object-groups.  Decides C01 (ACL/object-group part),
// C07 (unmanaged object-group untouched), C08, C10, C14 for ASA.

import (
	"strconv"
	"strings"

	"github.com/hknutzen/Netspoc-Approve/go/pkg/vf"
)

var verifASAPlain = []string{
	"permit ip host 10.0.0.1 any4",
	"deny ip host 10.0.0.1 any4",
	"permit ip host 10.0.0.2 any4",
	"permit ip any4 any4",
	"deny ip any4 any4",
	"permit ip host 10.0.0.1 any4 log",
	"permit tcp host 10.0.0.2 any4 eq 80",
	"deny ip host 10.0.0.3 any4 log warnings",
}

var verifASAHosts = []string{
	"network-object host 10.0.0.1",
	"network-object host 10.0.0.2",
	"network-object host 10.0.0.3",
}

type verifASALine struct {
	body string // text behind "access-list NAME extended "; symbolic
	grp  string // name of referenced object-group or ""
}

type verifASAGroup struct {
	name    string
	members []string // symbolic member lines, sorted
}

// verifASAConf describes a configuration / the state of the device model.
type verifASAConf struct {
	aclOrder []string
	acls     map[string][]verifASALine
	groups   []*verifASAGroup
	bound    string // ACL bound "in interface inside" or ""
	bound2   string // ACL bound "in interface outside" or "" (param acl2)
	manual   bool   // unmanaged object-group "manual-grp" present

	// model only
	mode string
}

func (c *verifASAConf) group(name string) *verifASAGroup {
	for _, g := range c.groups {
		if g.name == name {
			return g
		}
	}
	return nil
}

type verifASAMenu struct {
	body, parsed []string
	nolog        []string
}

var verifASALogRX = regexpMust(` log( ((\w+ )?interval \d+|\w+|disable|default))?\b`)

func verifBuildASAMenu(s *State, k int) *verifASAMenu {
	text := ""
	for _, l := range verifASAPlain[:k] {
		text += "access-list MENU extended " + l + "\n"
	}
	cf, err := s.ParseConfig([]byte(text), "<menu>")
	if err != nil {
		panic(err)
	}
	m := &verifASAMenu{}
	for i, c := range cf.(*Config).lookup["access-list"]["MENU"] {
		m.body = append(m.body, verifASAPlain[i])
		m.parsed = append(m.parsed, strings.TrimPrefix(c.parsed, "access-list $NAME extended "))
		m.nolog = append(m.nolog, verifASALogRX.ReplaceAllString(verifASAPlain[i], ""))
	}
	return m
}

// index of a plain line body in the menu; the text may be the original or the
// normalised (parsed) spelling that the tool prints in its commands
func (mn *verifASAMenu) index(body string) int {
	a := vf.LookupString(mn.body, body)
	p := vf.LookupString(mn.parsed, body)
	return vf.IteInt(vf.Not(vf.EqInt(a, -1)), a, p)
}

// verifBuildASAConfig makes a *Config from the description: the structure is
// parsed from placeholder text by the real parser, then the symbolic texts
// are filled in.
func verifBuildASAConfig(s *State, mn *verifASAMenu, d *verifASAConf, isDevice bool) *Config {
	var b strings.Builder
	if isDevice {
		b.WriteString("interface Ethernet0/0\n nameif inside\n")
		if verifACL2 {
			b.WriteString("interface Ethernet0/1\n nameif outside\n")
		}
	}
	for ai, name := range d.aclOrder {
		for i, l := range d.acls[name] {
			if l.grp != "" {
				b.WriteString("access-list " + name + " extended permit ip object-group " + l.grp + " any4\n")
			} else {
				b.WriteString("access-list " + name + " extended permit ip host 10.99." + strconv.Itoa(ai) + "." + strconv.Itoa(i+1) + " any4\n")
			}
		}
	}
	if d.bound != "" {
		b.WriteString("access-group " + d.bound + " in interface inside\n")
	}
	if d.bound2 != "" {
		b.WriteString("access-group " + d.bound2 + " in interface outside\n")
	}
	for gi, g := range d.groups {
		b.WriteString("object-group network " + g.name + "\n")
		for j := range g.members {
			b.WriteString(" network-object host 10.98." + strconv.Itoa(gi) + "." + strconv.Itoa(j+1) + "\n")
		}
	}
	if d.manual {
		b.WriteString("object-group network manual-grp\n network-object host 10.77.0.1\n")
	}
	fname := "router"
	if isDevice {
		fname = "<device>"
	}
	cfi, err := s.ParseConfig([]byte(b.String()), fname)
	if err != nil {
		panic("harness: skeleton does not parse: " + err.Error())
	}
	cf := cfi.(*Config)
	for _, name := range d.aclOrder {
		cmds := cf.lookup["access-list"][name]
		for i, l := range d.acls[name] {
			c := cmds[i]
			c.orig = "access-list " + name + " extended " + l.body
			if l.grp != "" {
				c.parsed = "access-list $NAME extended " + strings.Replace(l.body, "object-group "+l.grp, "object-group $REF", 1)
			} else {
				idx := mn.index(l.body)
				c.parsed = "access-list $NAME extended " + vf.SelectString(idx, mn.parsed)
			}
		}
	}
	for _, g := range d.groups {
		gc := cf.lookup["object-group"][g.name][0]
		for j, mline := range g.members {
			gc.sub[j].orig = mline
			gc.sub[j].parsed = mline
		}
	}
	return cf
}

// ---------------------------------------------------------------------------
// ASA device model

func (m *verifASAConf) reject(cond bool, why string) {
	vf.Assert(vf.Not(cond), "C08: ASA rejects command: "+why)
}

func (m *verifASAConf) groupReferenced(name string) bool {
	for _, an := range m.aclOrder {
		for _, l := range m.acls[an] {
			if l.grp == name {
				return true
			}
		}
	}
	return false
}

func verifASAParseLine(rest string) (verifASALine, bool) {
	// rest: "extended <body>"
	body, ok := strings.CutPrefix(rest, "extended ")
	if !ok {
		return verifASALine{}, false
	}
	l := verifASALine{body: body}
	// group name is concrete in every emitted command
	w := strings.Fields(vf.FixString(verifASAShape(body)))
	for i, x := range w {
		if x == "object-group" && i+1 < len(w) {
			l.grp = w[i+1]
		}
	}
	return l, true
}

// verifASAShape reduces a body to the part that decides its structure
// ("object-group NAME" or nothing), so that fixing it does not fork on hosts.
func verifASAShape(body string) string {
	if _, rest, ok := strings.Cut(body, "object-group "); ok {
		name, _, _ := strings.Cut(rest, " ")
		return "object-group " + name
	}
	return ""
}

func (m *verifASAConf) execStep(chg string) {
	for _, c := range strings.Split(chg, "\n") {
		m.exec(c)
	}
}

func (m *verifASAConf) exec(c string) {
	if c == "exit" {
		m.reject(m.mode == "", "exit at configuration level")
		m.mode = ""
		return
	}
	if rest, ok := strings.CutPrefix(c, "no access-list "); ok {
		m.mode = ""
		name, rest, _ := strings.Cut(rest, " ")
		name = vf.FixString(name)
		rest, hasLine := strings.CutPrefix(rest, "line ")
		acl, found := m.acls[name]
		m.reject(!found, "delete from unknown access-list")
		if !found {
			return
		}
		if hasLine {
			nr, rest2, _ := strings.Cut(rest, " ")
			n, _ := strconv.Atoi(vf.FixString(nr))
			l, ok := verifASAParseLine(rest2)
			m.reject(!ok, "unparsable access-list line")
			m.reject(n < 1 || n > len(acl), "line number out of range in delete")
			if n >= 1 && n <= len(acl) {
				m.reject(vf.Not(vf.EqString(acl[n-1].body, l.body)), "entry at given line number differs from the one to delete")
				m.setACL(name, append(append([]verifASALine{}, acl[:n-1]...), acl[n:]...))
			}
			return
		}
		l, ok := verifASAParseLine(rest)
		m.reject(!ok, "unparsable access-list line")
		for i, x := range acl {
			if x.body == l.body {
				m.setACL(name, append(append([]verifASALine{}, acl[:i]...), acl[i+1:]...))
				return
			}
		}
		m.reject(true, "delete of access-list entry that does not exist")
		return
	}
	if rest, ok := strings.CutPrefix(c, "access-list "); ok {
		m.mode = ""
		name, rest, _ := strings.Cut(rest, " ")
		name = vf.FixString(name)
		acl := m.acls[name]
		pos := len(acl)
		if r2, hasLine := strings.CutPrefix(rest, "line "); hasLine {
			nr, r3, _ := strings.Cut(r2, " ")
			n, _ := strconv.Atoi(vf.FixString(nr))
			m.reject(n < 1 || n > len(acl)+1, "line number out of range in insert")
			if n >= 1 && n <= len(acl)+1 {
				pos = n - 1
			}
			rest = r3
		}
		l, ok := verifASAParseLine(rest)
		m.reject(!ok, "unparsable access-list line")
		if l.grp != "" {
			m.reject(m.group(l.grp) == nil && l.grp != "manual-grp", "access-list references unknown object-group")
		}
		nl := verifASALogRX.ReplaceAllString(l.body, "")
		dup := false
		for _, x := range acl {
			dup = vf.Or(dup, vf.TermBool(verifASALogRX.ReplaceAllString(x.body, "") == nl))
		}
		m.reject(dup, "duplicate access-list entry")
		nacl := make([]verifASALine, 0, len(acl)+1)
		nacl = append(nacl, acl[:pos]...)
		nacl = append(nacl, l)
		nacl = append(nacl, acl[pos:]...)
		m.setACL(name, nacl)
		return
	}
	if rest, ok := strings.CutPrefix(c, "clear configure access-list "); ok {
		m.mode = ""
		name := vf.FixString(rest)
		_, found := m.acls[name]
		m.reject(!found, "clear of unknown access-list")
		m.reject(m.bound == name || m.bound2 == name, "clear of access-list that is still bound to an interface")
		m.delACL(name)
		return
	}
	if rest, ok := strings.CutPrefix(c, "clear configure object-group "); ok {
		m.mode = ""
		name := vf.FixString(rest)
		m.delGroup(name)
		return
	}
	if rest, ok := strings.CutPrefix(c, "no object-group network "); ok {
		m.mode = ""
		m.delGroup(vf.FixString(rest))
		return
	}
	if rest, ok := strings.CutPrefix(c, "object-group network "); ok {
		name := vf.FixString(rest)
		if name != "manual-grp" && m.group(name) == nil {
			m.groups = append(m.groups, &verifASAGroup{name: name})
		}
		m.mode = "group " + name
		return
	}
	if rest, ok := strings.CutPrefix(c, "access-group "); ok {
		m.mode = ""
		w := strings.Fields(vf.FixString(rest))
		_, found := m.acls[w[0]]
		m.reject(!found, "access-group for unknown access-list")
		if len(w) == 4 && w[3] == "outside" {
			m.bound2 = w[0]
		} else {
			m.bound = w[0]
		}
		return
	}
	if rest, ok := strings.CutPrefix(c, "no access-group "); ok {
		m.mode = ""
		w := strings.Fields(vf.FixString(rest))
		if len(w) == 4 && w[3] == "outside" {
			m.reject(m.bound2 != w[0], "remove access-group that is not configured")
			m.bound2 = ""
			return
		}
		m.reject(m.bound != w[0], "remove access-group that is not configured")
		m.bound = ""
		return
	}
	if gname, ok := strings.CutPrefix(m.mode, "group "); ok {
		g := m.group(gname)
		if gname == "manual-grp" {
			vf.Assert(false, "C07: ASA: member of unmanaged object-group changed")
			return
		}
		if rest, ok := strings.CutPrefix(c, "no "); ok {
			for i, x := range g.members {
				if x == rest {
					g.members = append(append([]string{}, g.members[:i]...), g.members[i+1:]...)
					m.reject(len(g.members) == 0 && m.groupReferenced(gname), "last member removed from referenced object-group")
					return
				}
			}
			m.reject(true, "removal of object-group member that is not present")
			return
		}
		m.reject(!strings.HasPrefix(c, "network-object "), "unknown sub-command in object-group mode")
		dup := false
		for _, x := range g.members {
			dup = vf.Or(dup, vf.TermBool(x == c))
		}
		m.reject(dup, "object-group member added twice")
		g.members = append(g.members, c)
		return
	}
	m.reject(true, "command not understood by the ASA model in mode '"+m.mode+"'")
}

func (m *verifASAConf) setACL(name string, l []verifASALine) {
	if _, ok := m.acls[name]; !ok {
		m.aclOrder = append(m.aclOrder, name)
	}
	m.acls[name] = l
}

func (m *verifASAConf) delACL(name string) {
	delete(m.acls, name)
	for i, n := range m.aclOrder {
		if n == name {
			m.aclOrder = append(append([]string{}, m.aclOrder[:i]...), m.aclOrder[i+1:]...)
			break
		}
	}
}

func (m *verifASAConf) delGroup(name string) {
	if name == "manual-grp" {
		vf.Assert(false, "C07: ASA: unmanaged object-group deleted")
		return
	}
	m.reject(m.group(name) == nil, "delete of unknown object-group")
	m.reject(m.groupReferenced(name), "delete of object-group that is still referenced")
	for i, g := range m.groups {
		if g.name == name {
			m.groups = append(append([]*verifASAGroup{}, m.groups[:i]...), m.groups[i+1:]...)
			break
		}
	}
}

// verdict of the bound ACL for packet class p (term): 1 deny, 2 permit.
// No access-group: interface default (treated as permit for comparison only).
func (m *verifASAConf) verdict(mn *verifASAMenu, p int) int {
	if m.bound == "" {
		return 2
	}
	return m.aclVerdict(mn, m.acls[m.bound], p)
}

// verdict of the ACL bound to the second interface
func (m *verifASAConf) verdict2(mn *verifASAMenu, p int) int {
	if m.bound2 == "" {
		return 2
	}
	return m.aclVerdict(mn, m.acls[m.bound2], p)
}

// verifACL2: a second interface "outside" with its own ACL of one line that
// references an object-group
var verifACL2 = false

func verifHostOfClass(cl int) int { return cl % 4 } // 0..2: 10.0.0.1-3, 3: other

func (m *verifASAConf) aclVerdict(mn *verifASAMenu, lines []verifASALine, p int) int {
	v := vf.TermInt(1) // implicit deny
	for i := len(lines) - 1; i >= 0; i-- {
		l := lines[i]
		var matches bool
		var act int
		if l.grp != "" {
			isPermit := strings.HasPrefix(l.body, "permit ")
			act = vf.IteInt(isPermit, 2, 1)
			g := m.group(l.grp)
			matches = false
			if g != nil {
				for _, mem := range g.members {
					h := vf.LookupString(verifASAHosts, mem) // 0..2
					for cl := 0; cl < verifNClasses; cl++ {
						if verifHostOfClass(cl) < 3 {
							matches = vf.Or(matches, vf.And(vf.TermBool(vf.EqInt(p, cl)), vf.TermBool(vf.EqInt(h, verifHostOfClass(cl)))))
						}
					}
				}
			}
		} else {
			idx := mn.index(l.body)
			act = vf.SelectInt(idx, verifASAActs(mn))
			matches = false
			mt := verifASAMatch(mn)
			for cl := 0; cl < verifNClasses; cl++ {
				matches = vf.Or(matches, vf.And(vf.TermBool(vf.EqInt(p, cl)), vf.TermBool(vf.SelectBool(idx, mt[cl]))))
			}
		}
		v = vf.IteInt(matches, vf.TermInt(act), v)
	}
	return v
}

var verifASAActCache []int
var verifASAMatchCache [][]bool

func verifASAActs(mn *verifASAMenu) []int {
	if verifASAActCache == nil {
		verifASAFill(mn)
	}
	return verifASAActCache
}

func verifASAMatch(mn *verifASAMenu) [][]bool {
	if verifASAMatchCache == nil {
		verifASAFill(mn)
	}
	return verifASAMatchCache
}

func verifASAFill(mn *verifASAMenu) {
	verifASAMatchCache = make([][]bool, verifNClasses)
	for _, b := range mn.body {
		line := strings.ReplaceAll(b, "any4", "any")
		a, mt := verifLineInfo(line)
		verifASAActCache = append(verifASAActCache, a)
		for cl := 0; cl < verifNClasses; cl++ {
			verifASAMatchCache[cl] = append(verifASAMatchCache[cl], mt[cl])
		}
	}
}

// ---------------------------------------------------------------------------

func verifASAPickGroup(tag, name string, maxMembers int) *verifASAGroup {
	g := &verifASAGroup{name: name}
	k := vf.Int(tag+".size", 1, maxMembers)
	prev := -1
	for j := 0; j < k; j++ {
		h := vf.Int(tag+".m"+strconv.Itoa(j), 0, len(verifASAHosts)-1)
		// members sorted and distinct: the tool sorts them first (sortGroups)
		vf.Assume(h > prev)
		prev = h
		g.members = append(g.members, vf.SelectString(h, verifASAHosts))
	}
	return g
}

func verifASAPickSide(tag, aclName string, n int, mn *verifASAMenu, grpNames []string, maxMembers int) *verifASAConf {
	d := &verifASAConf{acls: map[string][]verifASALine{}}
	var lines []verifASALine
	used := map[string]bool{}
	for i := 0; i < n; i++ {
		t := tag + strconv.Itoa(i)
		if vf.Bool(t + ".usesGroup") {
			gi := 0
			if len(grpNames) > 1 {
				gi = vf.FixInt(vf.Int(t+".group", 0, len(grpNames)-1))
			}
			gname := grpNames[gi]
			used[gname] = true
			act := vf.Pick(t+".action", []string{"permit", "deny"})
			lines = append(lines, verifASALine{body: act + " ip object-group " + gname + " any4", grp: gname})
		} else {
			lines = append(lines, verifASALine{body: vf.Pick(t+".line", mn.body)})
		}
	}
	// no duplicate entries modulo log
	for i := range lines {
		for j := 0; j < i; j++ {
			vf.Assume(verifASALogRX.ReplaceAllString(lines[i].body, "") != verifASALogRX.ReplaceAllString(lines[j].body, ""))
		}
	}
	if n > 0 {
		// an ASA cannot bind an access-list without entries
		d.aclOrder = []string{aclName}
		d.acls[aclName] = lines
		d.bound = aclName
	}
	if verifACL2 && len(grpNames) > 0 && vf.Bool(tag+".acl2") {
		gi := 0
		if len(grpNames) > 1 {
			gi = vf.FixInt(vf.Int(tag+".acl2.group", 0, len(grpNames)-1))
		}
		gname := grpNames[gi]
		used[gname] = true
		name2 := "outside_in"
		if tag == "a" {
			name2 = "outside_in-DRC-0"
		}
		d.aclOrder = append(d.aclOrder, name2)
		d.acls[name2] = []verifASALine{{body: "permit ip object-group " + gname + " any4", grp: gname}}
		d.bound2 = name2
		vf.Cover("second interface ACL on " + map[string]string{"a": "device", "b": "target"}[tag])
	}
	for _, gname := range grpNames {
		if used[gname] {
			d.groups = append(d.groups, verifASAPickGroup(tag+"."+gname, gname, maxMembers))
		}
	}
	return d
}

func (d *verifASAConf) clone() *verifASAConf {
	c := &verifASAConf{acls: map[string][]verifASALine{}, bound: d.bound, bound2: d.bound2, manual: d.manual}
	c.aclOrder = append([]string{}, d.aclOrder...)
	for k, v := range d.acls {
		c.acls[k] = append([]verifASALine{}, v...)
	}
	for _, g := range d.groups {
		c.groups = append(c.groups, &verifASAGroup{name: g.name, members: append([]string{}, g.members...)})
	}
	return c
}

// VerifASAACL is the converge harness for ASA ACLs with object-groups.
func VerifASAACL(cmdInfo string) {
	N, _ := strconv.Atoi(vf.Param("N", "2"))
	K, _ := strconv.Atoi(vf.Param("K", "6"))
	G, _ := strconv.Atoi(vf.Param("G", "1"))        // object-groups per side
	MM, _ := strconv.Atoi(vf.Param("members", "2")) // members per group
	cut := vf.Param("cut", "0") == "1"
	verifACL2 = vf.Param("acl2", "0") == "1"
	if verifACL2 {
		vf.Assumption("ASA: optional second interface 'outside' with an ACL of one line 'permit ip object-group G any4' on each side")
	}
	vf.Assumption("ASA: ACL lines are plain lines from a menu of " + strconv.Itoa(K) + " or 'permit|deny ip object-group G any4'; no ACL holds the same entry twice modulo log; object-groups have 1.." + strconv.Itoa(MM) + " distinct members of 3 hosts")
	vf.Assumption("ASA model: 'line N' addresses position N (1..len+1), duplicate entry (modulo log) rejected, referenced object-group must exist, object-group delete rejected while referenced, member add/remove rejected if present/absent, access-group needs an existing ACL, clear configure access-list rejected while bound, implicit deny at the end")
	s := &State{Model: "ASA"}
	s.SetupParser(cmdInfo)
	mn := verifBuildASAMenu(s, K)
	aGroups := []string{"g0-DRC-0", "g1-DRC-0"}[:G]
	bGroups := []string{"g0", "g1"}[:G]

	n := vf.Int("n", 0, N)
	m := vf.Int("m", 1, N)
	aName := "inside_in"
	if vf.Bool("deviceHasGeneratedName") {
		aName = "inside_in-DRC-0"
	}
	dA := verifASAPickSide("a", aName, n, mn, aGroups, MM)
	dB := verifASAPickSide("b", "inside_in", m, mn, bGroups, MM)
	if G > 0 && vf.Bool("leftoverGroup") {
		// a generated group left over on the device, not referenced
		if dA.group(aGroups[0]) == nil {
			dA.groups = append(dA.groups, verifASAPickGroup("a.left", aGroups[0], MM))
			vf.Cover("left-over generated object-group on device")
		}
	}
	dA.manual = vf.Bool("manualGroup")

	model := dA.clone()
	confA := verifBuildASAConfig(s, mn, dA, true)
	confB := verifBuildASAConfig(s, mn, dB, false)
	if err := s.GetChanges(confA, confB); err != nil {
		vf.Assert(false, "C01: GetChanges failed on accepted input: "+err.Error())
		return
	}
	changes := s.Changes
	vf.Note("A:", verifASAShow(dA), "B:", verifASAShow(dB))
	for _, c := range changes {
		vf.Note("CHG:", c)
		vf.Assert(!strings.Contains(vf.FixString(verifManualShape(c)), "manual-grp"), "C07: ASA: command names the unmanaged object-group")
	}
	p := vf.Int("packetClass", 0, verifNClasses-1)
	vA := model.verdict(mn, p)
	vB := dB.verdict(mn, p)
	agree := vf.EqInt(vA, vB)
	if len(changes) == 0 {
		vf.Cover("no change reported")
		vf.Assert(agree, "C01: ASA: no change reported although device ACL filters differently from target")
	} else {
		vf.Cover("changes emitted")
	}
	// C14 does not cover edits of the membership of a group that exists on
	// the device (the creation of a new group is not such an edit)
	groupEdit := false
	inExisting := false
	for _, c := range changes {
		if strings.Contains(c, "\n") {
			vf.Cover("move emitted (joined delete+add)")
		}
		if strings.HasPrefix(c, "object-group network ") {
			inExisting = dA.group(strings.TrimPrefix(c, "object-group network ")) != nil
		}
		if strings.HasPrefix(c, "network-object ") || strings.HasPrefix(c, "no network-object ") {
			if inExisting {
				groupEdit = true
				vf.Cover("object-group membership edited")
			} else {
				vf.Cover("new object-group created")
			}
		}
		if strings.HasPrefix(c, "clear configure object-group") {
			vf.Cover("object-group deleted")
		}
	}
	// tags for known defect families
	moveTag := ""
	for _, c := range changes {
		if strings.Contains(c, "\n") {
			moveTag = " [script moves a line (joined delete+add)]"
		}
	}
	twinTag := ""
	for i, g := range dA.groups {
		for _, h := range dA.groups[:i] {
			if len(g.members) == len(h.members) {
				same := true
				for j := range g.members {
					if g.members[j] != h.members[j] {
						same = false
					}
				}
				if same {
					twinTag = " [device has two identical object-groups]"
					vf.Cover("device has two identical object-groups")
				}
			}
		}
	}
	k := len(changes)
	if cut {
		k = vf.Int("cut", 0, len(changes))
	}
	for _, c := range changes[:k] {
		model.execStep(c)
		if !groupEdit {
			// C14 covers line inserts, deletes and moves, not edits of shared groups
			now := model.verdict(mn, p)
			vf.Assert(vf.Or(vf.Not(agree), vf.EqInt(now, vA)),
				"C14: ASA: verdict of a packet on which old and new ACL agree changes at an intermediate step"+moveTag)
		}
	}
	lbl := "C01"
	if cut {
		lbl = "C10"
		vf.Cover("resumed after cut")
		s2 := &State{Model: "ASA"}
		s2.SetupParser(cmdInfo)
		cA2 := verifBuildASAConfig(s2, mn, model.clone(), true)
		cB2 := verifBuildASAConfig(s2, mn, dB, false)
		if err := s2.GetChanges(cA2, cB2); err != nil {
			vf.Assert(false, "C10: ASA: GetChanges failed on partially changed device: "+err.Error())
			return
		}
		for _, c := range s2.Changes {
			vf.Note("CHG2:", c)
			model.execStep(c)
		}
	}
	vEnd := model.verdict(mn, p)
	vf.Assert(vf.EqInt(vEnd, vB), lbl+": ASA: after executing the script the ACL filters differently from the target")
	if verifACL2 {
		if dB.bound2 == "" {
			// the target does not know interface outside: its ACL is out of scope
			vf.Assert(model.bound2 == dA.bound2, "C07: ASA: access-group of an interface unknown to Netspoc was changed")
			if dA.bound2 != "" {
				same := len(model.acls[dA.bound2]) == len(dA.acls[dA.bound2])
				if same {
					for i, l := range dA.acls[dA.bound2] {
						same = same && model.acls[dA.bound2][i].body == l.body
					}
				}
				vf.Assert(same, "C07: ASA: ACL of an interface unknown to Netspoc was changed")
			}
		} else {
			vf.Assert(vf.EqInt(model.verdict2(mn, p), dB.verdict2(mn, p)), lbl+": ASA: after executing the script the ACL of the second interface filters differently from the target")
		}
	}
	vf.Assert(model.manual == dA.manual, "C07: ASA: unmanaged object-group removed")
	// no left-over generated objects that the target does not use: second compare
	s3 := &State{Model: "ASA"}
	s3.SetupParser(cmdInfo)
	cA3 := verifBuildASAConfig(s3, mn, model.clone(), true)
	cB3 := verifBuildASAConfig(s3, mn, dB, false)
	if err := s3.GetChanges(cA3, cB3); err != nil {
		vf.Assert(false, lbl+": ASA: second compare failed: "+err.Error())
		return
	}
	for _, c := range s3.Changes {
		vf.Note("CHG3:", c)
	}
	vf.Assert(len(s3.Changes) == 0, lbl+": ASA: second compare still reports changes"+twinTag)
}

func verifManualShape(c string) string {
	if strings.Contains(c, "manual-grp") {
		return "manual-grp"
	}
	return ""
}

func verifASAShow(d *verifASAConf) string {
	var b strings.Builder
	for _, n := range d.aclOrder {
		b.WriteString(n + ":[")
		for _, l := range d.acls[n] {
			b.WriteString(l.body + " / ")
		}
		b.WriteString("] ")
	}
	for _, g := range d.groups {
		b.WriteString(g.name + "={" + strings.Join(g.members, ",") + "} ")
	}
	return b.String()
}
