package cisco

// Route harness for ASA and IOS (C01 / C02, C07, C08, C14): static routes
// of device and target are solver-chosen from small menus (IOS: global table
// and one VRF; ASA: IPv4 and one IPv6 route), parsed by the real parser,
// planned by the real GetChanges / diffRoutes; the script is executed on a
// routing table model.

import (
	"strconv"
	"strings"

	"github.com/hknutzen/Netspoc-Approve/go/pkg/vf"
)

type VerifRouteAPI struct {
	Model string
	// Changes parses both texts and returns the emitted commands
	Changes func(device, target string) ([]string, error)
}

type verifRt struct {
	fam string // "v4", "v6"
	vrf string
	dst string
	hop string
}

func verifRtLine(model string, r verifRt) string {
	if model == "ASA" {
		if r.fam == "v6" {
			return "ipv6 route inside " + r.dst + " " + r.hop
		}
		return "route inside " + r.dst + " " + r.hop
	}
	v := ""
	if r.vrf != "" {
		v = "vrf " + r.vrf + " "
	}
	return "ip route " + v + r.dst + " " + r.hop
}

type verifRtTable struct {
	model  string
	routes []verifRt
}

func (t *verifRtTable) find(line string) int {
	for i, r := range t.routes {
		if verifRtLine(t.model, r) == line {
			return i
		}
	}
	return -1
}

func (t *verifRtTable) parse(line string) (verifRt, bool) {
	for _, fam := range []string{"v4", "v6"} {
		for _, vrf := range []string{"", "v1"} {
			for _, d := range verifRtDsts(t.model, fam) {
				for _, h := range verifRtHops(fam) {
					r := verifRt{fam, vrf, d, h}
					if verifRtLine(t.model, r) == line {
						return r, true
					}
				}
			}
		}
	}
	return verifRt{}, false
}

func verifRtDsts(model, fam string) []string {
	if fam == "v6" {
		return []string{"10::3:0/112"}
	}
	// the /16 and the /24 share their network address
	return []string{"10.20.0.0 255.255.0.0", "10.20.0.0 255.255.255.0", "0.0.0.0 0.0.0.0"}
}

// probe addresses (IPv4): outside, in the /16 only, in the /24;
// verifRtCovers[p] lists the destinations (indices) that contain probe p
var verifRtCovers = [][]int{{2}, {2, 0}, {2, 0, 1}}

var verifRtIOS = false

func verifRtHops(fam string) []string {
	if fam == "v6" {
		return []string{"10::2:2", "10::2:3"}
	}
	if verifRtIOS {
		return []string{"10.1.2.3", "10.1.2.4"}
	}
	return []string{"10.1.2.3", "10.1.2.4", "10.1.2.5"}
}

// covered: some active IPv4 route of the VRF contains probe address p
func (t *verifRtTable) covered(vrf string, p int) bool {
	dsts := verifRtDsts(t.model, "v4")
	for _, r := range t.routes {
		if r.fam != "v4" || r.vrf != vrf {
			continue
		}
		for _, d := range verifRtCovers[p] {
			if r.dst == dsts[d] {
				return true
			}
		}
	}
	return false
}

func (t *verifRtTable) hasDst(fam, vrf, dst string) bool {
	for _, r := range t.routes {
		if r.fam == fam && r.vrf == vrf && r.dst == dst {
			return true
		}
	}
	return false
}

func (t *verifRtTable) exec(c string) {
	if rest, ok := strings.CutPrefix(c, "no "); ok {
		i := t.find(rest)
		if i < 0 {
			vf.Note("REJECT:", c)
			vf.Assert(false, "C08: "+t.model+": 'no' form of a route that the device does not have")
			return
		}
		t.routes = append(append([]verifRt{}, t.routes[:i]...), t.routes[i+1:]...)
		return
	}
	r, ok := t.parse(c)
	if !ok {
		vf.Note("UNKNOWN:", c)
		vf.Assert(false, "C08: "+t.model+": command of the script is not a route command of the harness")
		return
	}
	if t.find(c) >= 0 {
		vf.Note("REJECT:", c)
		vf.Assert(false, "C08: "+t.model+": route added that the device already has")
		return
	}
	if t.model == "ASA" && t.hasDst(r.fam, r.vrf, r.dst) {
		// the repository relies on this rule (diffRoutes: "ASA doesn't
		// allow two routes to identical destination")
		vf.Note("REJECT:", c)
		vf.Assert(false, "C08: ASA: second route to a destination that already has one")
		return
	}
	t.routes = append(t.routes, r)
}

func verifPickRoutes(t string, model string, n int, allowVRF bool) []verifRt {
	var l []verifRt
	for i := 0; i < n; i++ {
		ti := t + strconv.Itoa(i)
		r := verifRt{fam: "v4"}
		if allowVRF && vf.Bool(ti+".vrf") {
			r.vrf = "v1"
		}
		if model == "ASA" && vf.Bool(ti+".ipv6") {
			r.fam = "v6"
		}
		r.dst = vf.FixString(vf.Pick(ti+".dst", verifRtDsts(model, r.fam)))
		r.hop = vf.FixString(vf.Pick(ti+".hop", verifRtHops(r.fam)))
		for _, x := range l {
			vf.Assume(x != r)
			if model == "ASA" {
				// an ASA holds one route per destination
				vf.Assume(!(x.fam == r.fam && x.dst == r.dst))
			}
		}
		l = append(l, r)
	}
	return l
}

func VerifRoutes(api VerifRouteAPI) {
	N, _ := strconv.Atoi(vf.Param("N", "2"))
	model := api.Model
	verifRtIOS = model == "IOS"
	vf.Assumption(model + " routes: device and target each hold 0..N static routes over 3 IPv4 destinations (a /16, a /24 with the same network address inside it, default) x 3 next hops (IOS: 2 next hops, global table or VRF v1, several routes per destination allowed; ASA: one route per destination, one IPv6 destination x 2 hops); routing table model: 'no' needs the route, an identical route cannot be added twice, an ASA refuses a second route to a destination")
	n := vf.Int("n", 0, N)
	m := vf.Int("m", 0, N)
	A := verifPickRoutes("a", model, n, model == "IOS")
	B := verifPickRoutes("b", model, m, model == "IOS")
	base := "interface Ethernet0/0\n nameif inside\n"
	if model == "IOS" {
		base = "interface Ethernet0\n ip address 10.1.2.1 255.255.255.0\n"
	}
	devText, tgtText := base, base
	for _, r := range A {
		devText += verifRtLine(model, r) + "\n"
	}
	for _, r := range B {
		tgtText += verifRtLine(model, r) + "\n"
	}
	vf.Note("DEVICE:\n"+devText, "TARGET:\n"+tgtText)
	changes, err := api.Changes(devText, tgtText)
	if err != nil {
		vf.Assert(false, "C01: "+model+": routes rejected: "+err.Error())
		return
	}
	lbl := "C01"
	if model == "IOS" {
		lbl = "C02"
	}
	tbl := &verifRtTable{model: model, routes: append([]verifRt{}, A...)}
	before := &verifRtTable{model: model, routes: A}
	after := &verifRtTable{model: model, routes: B}
	// scope: a VRF / address family for which the target has no route is not managed
	managed := func(fam, vrf string) bool {
		for _, r := range B {
			if r.vrf == vrf && (model == "IOS" || r.fam == fam) {
				return true
			}
		}
		return false
	}
	if len(changes) == 0 {
		vf.Cover("no change reported")
	}
	cut := vf.Param("cut", "0") == "1"
	k := len(changes)
	if cut {
		// the approve is cut off after k commands and run again
		k = vf.FixInt(vf.Int("cut", 0, len(changes)))
		lbl = "C10"
	}
	step := func(chg string) {
		vf.Note("CHG:", chg)
		if strings.Contains(chg, "\n") {
			vf.Cover("replace in one transaction")
		}
		for _, c := range strings.Split(chg, "\n") {
			tbl.exec(c)
		}
		// C14: a destination routed before and after stays routed
		for _, fam := range []string{"v4", "v6"} {
			for _, vrf := range []string{"", "v1"} {
				for _, d := range verifRtDsts(model, fam) {
					if before.hasDst(fam, vrf, d) && after.hasDst(fam, vrf, d) {
						vf.Assert(tbl.hasDst(fam, vrf, d), "C14: "+model+": a destination that has a route before and after the change has none at an intermediate step")
					}
				}
			}
		}
		// the same for addresses: routed (by any containing route) before and after
		for _, vrf := range []string{"", "v1"} {
			for p := range verifRtCovers {
				if before.covered(vrf, p) && after.covered(vrf, p) {
					vf.Assert(tbl.covered(vrf, p), "C14: "+model+": an address that is routed before and after the change is unrouted at an intermediate step")
				}
			}
		}
	}
	for _, chg := range changes[:k] {
		step(chg)
	}
	if cut {
		vf.Cover("resumed after cut")
		devCut := base
		for _, r := range tbl.routes {
			devCut += verifRtLine(model, r) + "\n"
		}
		again, err := api.Changes(devCut, tgtText)
		if err != nil {
			vf.Assert(false, "C10: "+model+": resumed run failed: "+err.Error())
			return
		}
		for _, chg := range again {
			step(chg)
		}
	}
	// C07: unmanaged VRFs / address families untouched
	for _, r := range A {
		if !managed(r.fam, r.vrf) {
			vf.Cover("routes of a VRF or address family without target routes")
			vf.Assert(tbl.find(verifRtLine(model, r)) >= 0, "C07: "+model+": route of a VRF / address family for which the target specifies none was removed")
		}
	}
	// converge: managed routes equal the target's
	for _, r := range B {
		vf.Assert(tbl.find(verifRtLine(model, r)) >= 0, lbl+": "+model+": a target route is missing after the script")
	}
	for _, r := range tbl.routes {
		if managed(r.fam, r.vrf) {
			vf.Assert(after.find(verifRtLine(model, r)) >= 0, lbl+": "+model+": a route that is not in the target is still active in a managed VRF / address family")
		}
	}
	// second compare
	dev2 := base
	for _, r := range tbl.routes {
		dev2 += verifRtLine(model, r) + "\n"
	}
	c2, err := api.Changes(dev2, tgtText)
	if err != nil {
		vf.Assert(false, lbl+": "+model+": second compare failed: "+err.Error())
		return
	}
	for _, c := range c2 {
		vf.Note("CHG2:", c)
	}
	vf.Assert(len(c2) == 0, lbl+": "+model+": second compare of routes still reports changes")
}
