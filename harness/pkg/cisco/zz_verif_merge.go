package cisco

// C18 harness: merge of Netspoc IPv4 code, IPv6 code and raw file for one
// ACL (ASA and IOS), compared with the order rules of the statement.

import (
	"strconv"
	"strings"

	"github.com/hknutzen/Netspoc-Approve/go/pkg/errlog"
	"github.com/hknutzen/Netspoc-Approve/go/pkg/vf"
)

var verifMergeBodies = []string{
	"permit ip host 10.0.0.1 any",
	"permit ip host 10.0.0.2 any",
	"deny ip host 10.0.0.3 any",
	"deny ip any any",
	"permit tcp host 10.0.0.2 any eq 80",
	"deny ip any6 any6",
	"permit ip host 1000::1 any6",
}

type verifPart struct {
	cf    *Config
	lines []*cmd
}

func verifMergeText(model, acl string, bodies []string, appendAt int) string {
	var b strings.Builder
	if model == "ASA" {
		for i, l := range bodies {
			if i == appendAt {
				b.WriteString("[APPEND]\n")
			}
			b.WriteString("access-list " + acl + " extended " + l + "\n")
		}
		if len(bodies) > 0 {
			b.WriteString("access-group " + acl + " in interface inside\n")
		}
	} else if len(bodies) > 0 {
		b.WriteString("interface Ethernet0\n ip access-group " + acl + " in\n")
		b.WriteString("ip access-list extended " + acl + "\n")
		for i, l := range bodies {
			if i == appendAt {
				// [APPEND] marks all following lines
				b.WriteString("[APPEND]\n")
				b.WriteString("ip access-list extended " + acl + "\n")
			}
			b.WriteString(" " + l + "\n")
		}
	}
	return b.String()
}

// verifMergePart parses a skeleton with placeholder lines and then replaces
// the line contents by symbolic picks from the menu (parsed by the real parser).
func verifMergePart(s *State, model, fname, acl, tag string, n, appendAt int, menu *verifMergeMenu) *verifPart {
	ph := make([]string, n)
	for i := range ph {
		ph[i] = "permit ip host 10.99.0." + strconv.Itoa(i+1) + " any"
	}
	cfi, err := s.ParseConfig([]byte(verifMergeText(model, acl, ph, appendAt)), fname)
	if err != nil {
		panic(err)
	}
	cf := cfi.(*Config)
	p := &verifPart{cf: cf}
	if n == 0 {
		return p
	}
	if model == "ASA" {
		p.lines = append([]*cmd{}, cf.lookup["access-list"][acl]...)
	} else {
		for _, h := range cf.lookup["ip access-list extended"][acl] {
			p.lines = append(p.lines, h.sub...)
		}
	}
	for i, c := range p.lines {
		idx := vf.Int(tag+strconv.Itoa(i), 0, len(menu.orig)-1)
		body := vf.SelectString(idx, menu.orig)
		if model == "ASA" {
			c.orig = "access-list " + acl + " extended " + body
			c.parsed = "access-list $NAME extended " + vf.SelectString(idx, menu.parsed)
		} else {
			c.orig = body
			c.parsed = vf.SelectString(idx, menu.parsed)
			action, _, _ := strings.Cut(c.parsed, " ")
			c.typ = menu.typ[vf.FixString(action)]
		}
	}
	return p
}

type verifMergeMenu struct {
	orig, parsed []string
	typ          map[string]*cmdType
}

func verifBuildMergeMenu(s *State, model string) *verifMergeMenu {
	cfi, err := s.ParseConfig([]byte(verifMergeText(model, "MENU", verifMergeBodies, -1)), "<menu>")
	if err != nil {
		panic(err)
	}
	cf := cfi.(*Config)
	m := &verifMergeMenu{typ: map[string]*cmdType{}}
	var l []*cmd
	if model == "ASA" {
		l = cf.lookup["access-list"]["MENU"]
	} else {
		l = cf.lookup["ip access-list extended"]["MENU"][0].sub
	}
	for i, c := range l {
		m.orig = append(m.orig, verifMergeBodies[i])
		p := c.parsed
		if model == "ASA" {
			p = strings.TrimPrefix(p, "access-list $NAME extended ")
		} else {
			m.typ[getIOSAction(c)] = c.typ
		}
		m.parsed = append(m.parsed, p)
	}
	return m
}

// VerifMergeACL: merge v4 + v6 + raw for one ACL.
func VerifMergeACL(cmdInfo, model string) {
	N, _ := strconv.Atoi(vf.Param("N", "2"))
	s := &State{Model: model}
	s.SetupParser(cmdInfo)
	menu := verifBuildMergeMenu(s, model)
	acl := "inside_in"
	n4 := vf.Int("n4", 0, N)
	n6 := vf.Int("n6", 0, N)
	nr := vf.Int("nraw", 0, N)
	appendAt := vf.Int("appendAt", 0, nr) // == nr: no [APPEND] section
	if appendAt == nr {
		appendAt = -1
	}
	vf.Assume(n4+n6+nr > 0)
	p4 := verifMergePart(s, model, "router", acl, "v4_", n4, -1, menu)
	p6 := verifMergePart(s, model, "ipv6/router", acl, "v6_", n6, -1, menu)
	praw := verifMergePart(s, model, "router.raw", acl, "raw_", nr, appendAt, menu)
	if nr > 0 {
		vf.Cover("raw part present")
	}
	if appendAt >= 0 {
		vf.Cover("raw part with [APPEND] section")
	}

	var merged *Config
	var stderr string
	rc := errlog.HandleAbort(func() int {
		stderr = vf.CaptureStderr(func() {
			errlog.SetStderrLog("")
			c := p4.cf.MergeSpoc(p6.cf).(*Config)
			merged = c.MergeSpoc(praw.cf).(*Config)
		})
		return 0
	})
	if rc != 0 {
		// an unmergeable raw entry must produce a message, not silence
		vf.Cover("merge aborted with message")
		vf.Assert(strings.Contains(stderr, "ERROR>>>"), "C18: merge aborted without an ERROR message")
		return
	}
	var R []*cmd
	if model == "ASA" {
		R = merged.lookup["access-list"][acl]
	} else {
		hl := merged.lookup["ip access-list extended"][acl]
		vf.Assert(len(hl) == 1, "C18: IOS ACL not merged into a single ACL")
		if len(hl) >= 1 {
			R = hl[0].sub
		}
	}
	for _, c := range R {
		vf.Note("MERGED:", c.parsed, "append=", c.append)
	}
	pos := map[*cmd]int{}
	for i, c := range R {
		_, dup := pos[c]
		vf.Assert(!dup, "C18: an entry appears twice in the merged ACL")
		pos[c] = i
	}
	total := len(p4.lines) + len(p6.lines) + len(praw.lines)
	vf.Assert(len(R) == total, "C18: merged ACL has "+strconv.Itoa(len(R))+" entries, parts have "+strconv.Itoa(total))
	inOrder := func(l []*cmd, what string) {
		last := -1
		for _, c := range l {
			p, ok := pos[c]
			vf.Assert(ok, "C18: entry of "+what+" part missing in merged ACL")
			if ok {
				vf.Assert(p > last, "C18: relative order inside "+what+" part not preserved")
				last = p
			}
		}
	}
	inOrder(p4.lines, "IPv4")
	inOrder(p6.lines, "IPv6")
	inOrder(praw.lines, "raw")
	// raw entries before all Netspoc entries unless APPEND
	spoc := append(append([]*cmd{}, p4.lines...), p6.lines...)
	firstSpoc := len(R)
	for _, c := range spoc {
		if p, ok := pos[c]; ok && p < firstSpoc {
			firstSpoc = p
		}
	}
	isPermit := func(c *cmd) bool {
		if model == "ASA" {
			return strings.Contains(c.parsed, "$NAME extended permit")
		}
		return strings.HasPrefix(c.parsed, "permit ")
	}
	lastPermit := -1
	for _, c := range spoc {
		if p, ok := pos[c]; ok && isPermit(c) && p > lastPermit {
			lastPermit = p
		}
	}
	if lastPermit < 0 && len(spoc) > 0 {
		vf.Cover("Netspoc ACL without permit line")
	}
	for _, c := range praw.lines {
		p, ok := pos[c]
		if !ok {
			continue
		}
		if !c.append {
			vf.Assert(p < firstSpoc, "C18: raw entry (not APPEND) does not precede all Netspoc entries")
		} else {
			vf.Cover("APPEND entry merged")
			vf.Assert(p > lastPermit, "C18: APPEND entry precedes the last Netspoc permit entry")
			// precedes the trailing deny run of the Netspoc entries
			for _, d := range spoc {
				if q, ok := pos[d]; ok && q > lastPermit {
					vf.Assert(p < q, "C18: APPEND entry follows a trailing deny entry of Netspoc")
				}
			}
		}
	}
}
