package cisco

// C16 harness (ASA): the same inputs planned under different map iteration
// schedules must give byte-identical change scripts.

import (
	"strconv"
	"strings"

	"github.com/hknutzen/Netspoc-Approve/go/pkg/vf"
)

// VerifDeterminismASA: ties are created by several object-groups with equal
// or different members on the device.
func VerifDeterminismASA(cmdInfo string) {
	N, _ := strconv.Atoi(vf.Param("N", "2"))
	MM, _ := strconv.Atoi(vf.Param("members", "2"))
	vf.Assumption("map iteration schedules explored by the executor: insertion order, reversed, rotated by one (native replay: 200 runs under Go's random map order)")
	s0 := &State{Model: "ASA"}
	s0.SetupParser(cmdInfo)
	mn := verifBuildASAMenu(s0, 4)
	n := vf.Int("n", 0, N)
	m := vf.Int("m", 1, N)
	dA := verifASAPickSide("a", "inside_in-DRC-0", n, mn, []string{"g0-DRC-0", "g1-DRC-0"}, MM)
	dB := verifASAPickSide("b", "inside_in", m, mn, []string{"g0", "g1"}, MM)
	// left-over generated groups on the device: candidates for reuse
	for _, name := range []string{"g0-DRC-0", "g1-DRC-0", "g2-DRC-0"} {
		if dA.group(name) == nil && vf.Bool("leftover."+name) {
			dA.groups = append(dA.groups, verifASAPickGroup("a.left."+name, name, MM))
		}
	}
	tag := ""
	for i, g := range dA.groups {
		for _, h := range dA.groups[:i] {
			if len(g.members) == len(h.members) {
				same := true
				for j := range g.members {
					if g.members[j] != h.members[j] {
						same = false
					}
				}
				if same {
					tag = " [device has two identical object-groups]"
					vf.Cover("device has two identical object-groups")
				}
			}
		}
	}
	runs := 3
	if !vf.Symbolic() {
		runs = 200
	}
	var first []string
	for r := 0; r < runs; r++ {
		vf.MapOrder(r % 3)
		s := &State{Model: "ASA"}
		s.SetupParser(cmdInfo)
		cA := verifBuildASAConfig(s, mn, dA.clone(), true)
		cB := verifBuildASAConfig(s, mn, dB.clone(), false)
		if err := s.GetChanges(cA, cB); err != nil {
			vf.Assert(false, "C16: GetChanges failed: "+err.Error())
			return
		}
		if r == 0 {
			first = append([]string{}, s.Changes...)
			continue
		}
		same := len(first) == len(s.Changes)
		if same {
			for i := range first {
				same = vf.And(same, vf.TermBool(first[i] == s.Changes[i]))
			}
		}
		if !vf.Symbolic() && !same {
			vf.Note("run 0:", strings.Join(first, " | "))
			vf.Note("run", r, ":", strings.Join(s.Changes, " | "))
		}
		vf.Assert(same, "C16: ASA: change script depends on map iteration order"+tag)
	}
	vf.MapOrder(0)
}
