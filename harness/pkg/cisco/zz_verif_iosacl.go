package cisco

// IOS ACL converge harness: decides C02 (ACL part), C08, C10, C14 for
// numbered ACL edits on IOS.  Symbolic: number and choice of ACL lines on the
// device and in the target, the device's ACL name, a packet class.

import (
	"regexp"
	"strconv"
	"strings"

	"github.com/hknutzen/Netspoc-Approve/go/pkg/vf"
)

var verifIOSMenuAll = []string{
	"permit ip host 10.0.0.1 any",
	"permit ip host 10.0.0.2 any",
	"deny ip host 10.0.0.1 any",
	"deny ip host 10.0.0.3 any",
	"permit ip any any",
	"deny ip any any",
	"permit ip host 10.0.0.1 any log",
	"remark test",
	"deny ip host 10.0.0.2 any log-input",
	"permit tcp host 10.0.0.2 any eq 80",
	"permit tcp host 10.0.0.2 any eq www",
	"deny ip host 10.0.0.3 any log",
}

// second menu: four permit lines and two deny lines (long same-action runs)
var verifIOSMenuB = []string{
	"permit ip host 10.0.0.1 any",
	"permit ip host 10.0.0.2 any",
	"permit ip host 10.0.0.3 any",
	"permit ip any any",
	"deny ip host 10.0.0.1 any",
	"deny ip any any",
}

// packet classes: source 10.0.0.1/2/3/other x {tcp/80, other protocol}
const verifNClasses = 8

func verifClassSrc(c int) string {
	return []string{"10.0.0.1", "10.0.0.2", "10.0.0.3", "10.9.9.9"}[c%4]
}
func verifClassTCP80(c int) bool { return c >= 4 }

// verifLineInfo computes action code and match set of a concrete ACL line.
// action codes: 0 none(remark) 1 deny 2 permit (the log attribute does not
// take part in the filter verdict; it is kept in the line text only)
func verifLineInfo(line string) (int, []bool) {
	w := strings.Fields(line)
	match := make([]bool, verifNClasses)
	if len(w) == 0 || w[0] == "remark" {
		return 0, match
	}
	act := 1
	if w[0] == "permit" {
		act = 2
	}
	proto := w[1]
	i := 2
	src := "any"
	if w[i] == "host" {
		src = w[i+1]
		i += 2
	} else {
		i++
	}
	// dst is always "any" in the menu
	i++
	port := ""
	for ; i < len(w); i++ {
		switch w[i] {
		case "eq":
			port = w[i+1]
			i++
		}
	}
	if port == "www" {
		port = "80"
	}
	for c := 0; c < verifNClasses; c++ {
		ok := src == "any" || src == verifClassSrc(c)
		if proto == "tcp" {
			ok = ok && verifClassTCP80(c) && (port == "" || port == "80")
		}
		match[c] = ok
	}
	return act, match
}

type verifMenu struct {
	orig   []string // text as printed by the device / Netspoc
	parsed []string // cmd.parsed after the real parser's normalisation
	act    []int
	match  [][]bool // [class][menu index]
	typ    map[string]*cmdType
	nolog  []string // orig with log attribute removed (device's duplicate rule)
}

var verifStripLog = regexp.MustCompile(` log(-input)?`)

func verifBuildIOSMenu(s *State, k int) *verifMenu {
	lines := verifIOSMenuAll[:k]
	if vf.Param("menu", "A") == "B" {
		lines = verifIOSMenuB
	}
	text := "ip access-list extended MENU\n"
	for _, l := range lines {
		text += " " + l + "\n"
	}
	cf, err := s.ParseConfig([]byte(text), "<menu>")
	if err != nil {
		panic(err)
	}
	sub := cf.(*Config).lookup["ip access-list extended"]["MENU"][0].sub
	m := &verifMenu{typ: map[string]*cmdType{}}
	m.match = make([][]bool, verifNClasses)
	for i, c := range sub {
		m.orig = append(m.orig, c.orig)
		m.parsed = append(m.parsed, c.parsed)
		m.nolog = append(m.nolog, verifStripLog.ReplaceAllString(c.orig, ""))
		a, mt := verifLineInfo(lines[i])
		m.act = append(m.act, a)
		for cl := 0; cl < verifNClasses; cl++ {
			m.match[cl] = append(m.match[cl], mt[cl])
		}
		m.typ[getIOSAction(c)] = c.typ
	}
	return m
}

// ---------------------------------------------------------------------------
// IOS device model (ACLs and interface bindings)

type verifIOSEntry struct {
	seq  int
	line string // without sequence number
}

type verifIOSModel struct {
	menu     *verifMenu
	acls     map[string][]*verifIOSEntry
	aclOrder []string
	bind     map[string]string // "<intf> in|out" -> ACL name
	mode     string            // "", "acl <name>", "intf <name>"
	rejected bool              // some command was rejected (term)
	why      string
}

func (m *verifIOSModel) reject(cond bool, why string) {
	// cond may be symbolic; the harness asserts !rejected under class C08
	vf.Assert(vf.Not(cond), "C08: IOS rejects command: "+why)
}

func (m *verifIOSModel) setACL(name string, l []*verifIOSEntry) {
	if _, ok := m.acls[name]; !ok {
		m.aclOrder = append(m.aclOrder, name)
	}
	m.acls[name] = l
}

// execStep executes one emitted change (may be two commands joined by \n).
func (m *verifIOSModel) execStep(chg string) {
	for _, c := range strings.Split(chg, "\n") {
		m.exec(c)
	}
}

func (m *verifIOSModel) exec(c string) {
	if rest, ok := strings.CutPrefix(c, "ip access-list resequence "); ok {
		w := strings.Fields(rest)
		name := vf.FixString(w[0])
		start, _ := strconv.Atoi(vf.FixString(w[1]))
		step, _ := strconv.Atoi(vf.FixString(w[2]))
		l, ok := m.acls[name]
		m.reject(!ok, "resequence of unknown ACL")
		for i, e := range l {
			e.seq = start + i*step
		}
		m.mode = ""
		return
	}
	if name, ok := strings.CutPrefix(c, "ip access-list extended "); ok {
		name = vf.FixString(name)
		if _, found := m.acls[name]; !found {
			m.setACL(name, nil)
		}
		m.mode = "acl " + name
		return
	}
	if name, ok := strings.CutPrefix(c, "no ip access-list extended "); ok {
		name = vf.FixString(name)
		_, found := m.acls[name]
		m.reject(!found, "delete of unknown ACL")
		delete(m.acls, name)
		for i, n := range m.aclOrder {
			if n == name {
				m.aclOrder = append(m.aclOrder[:i:i], m.aclOrder[i+1:]...)
				break
			}
		}
		m.mode = ""
		return
	}
	if name, ok := strings.CutPrefix(c, "interface "); ok {
		m.mode = "intf " + vf.FixString(name)
		return
	}
	if c == "exit" {
		m.reject(m.mode == "", "exit at configuration level")
		m.mode = ""
		return
	}
	if intf, ok := strings.CutPrefix(m.mode, "intf "); ok {
		if rest, ok := strings.CutPrefix(c, "ip access-group "); ok {
			w := strings.Fields(rest)
			m.bind[intf+" "+vf.FixString(w[1])] = vf.FixString(w[0])
			return
		}
		if rest, ok := strings.CutPrefix(c, "no ip access-group "); ok {
			w := strings.Fields(rest)
			key := intf + " " + vf.FixString(w[1])
			m.reject(m.bind[key] != vf.FixString(w[0]), "remove access-group that is not bound")
			delete(m.bind, key)
			return
		}
		m.reject(true, "unknown interface sub-command")
		return
	}
	if name, ok := strings.CutPrefix(m.mode, "acl "); ok {
		l := m.acls[name]
		if rest, ok := strings.CutPrefix(c, "no "); ok {
			seq, err := strconv.Atoi(rest)
			if err != nil {
				// "no <entry>": removes the entry with that content
				nr := verifStripLog.ReplaceAllString(rest, "")
				for i, e := range l {
					if verifStripLog.ReplaceAllString(e.line, "") == nr {
						m.acls[name] = append(l[:i:i], l[i+1:]...)
						return
					}
				}
				m.reject(true, "'no <entry>' for an entry that is not in the ACL")
				return
			}
			seq = vf.FixInt(seq)
			for i, e := range l {
				if e.seq == seq {
					m.acls[name] = append(l[:i:i], l[i+1:]...)
					return
				}
			}
			m.reject(true, "delete of missing sequence number")
			return
		}
		first, rest, _ := strings.Cut(c, " ")
		seq, err := strconv.Atoi(first)
		line := c
		if err == nil {
			line = rest
			seq = vf.FixInt(seq)
		} else {
			seq = 10
			if len(l) > 0 {
				seq = l[len(l)-1].seq + 10
			}
		}
		// duplicate entry (modulo log attribute) is rejected by IOS
		nl := verifStripLog.ReplaceAllString(line, "")
		isRemark := strings.HasPrefix(line, "remark ")
		dup := false
		for _, e := range l {
			if e.seq == seq {
				m.reject(true, "sequence number already in use")
			}
			if !isRemark {
				dup = vf.Or(dup, vf.TermBool(verifStripLog.ReplaceAllString(e.line, "") == nl))
			}
		}
		m.reject(dup, "duplicate ACL entry")
		e := &verifIOSEntry{seq: seq, line: line}
		pos := len(l)
		for i, x := range l {
			if x.seq > seq {
				pos = i
				break
			}
		}
		nlst := make([]*verifIOSEntry, 0, len(l)+1)
		nlst = append(nlst, l[:pos]...)
		nlst = append(nlst, e)
		nlst = append(nlst, l[pos:]...)
		m.acls[name] = nlst
		return
	}
	m.reject(true, "command not understood by the IOS model in mode '"+m.mode+"'")
}

// verdict of the ACL bound at key for packet class p (term):
// 1 deny 2 permit; an unbound or undefined ACL permits.
func (m *verifIOSModel) verdict(key string, p int) int {
	name, bound := m.bind[key]
	if !bound {
		return 2
	}
	l, found := m.acls[name]
	if !found {
		return 2
	}
	lines := make([]string, len(l))
	for i, e := range l {
		lines[i] = e.line
	}
	return m.menu.verdict(lines, p)
}

func (mn *verifMenu) verdict(lines []string, p int) int {
	// IOS: an ACL without any permit/deny entry (empty or remarks only)
	// permits everything; otherwise implicit deny at the end.
	hasACE := false
	for _, l := range lines {
		hasACE = vf.Or(hasACE, vf.TermBool(!strings.HasPrefix(l, "remark ")))
	}
	v := vf.IteInt(hasACE, vf.TermInt(1), vf.TermInt(2))
	for i := len(lines) - 1; i >= 0; i-- {
		idx := vf.LookupString(mn.orig, lines[i])
		act := vf.SelectInt(idx, mn.act)
		matches := false
		for cl := 0; cl < verifNClasses; cl++ {
			matches = vf.Or(matches, vf.And(vf.TermBool(vf.EqInt(p, cl)), vf.TermBool(vf.SelectBool(idx, mn.match[cl]))))
		}
		v = vf.IteInt(matches, vf.TermInt(act), v)
	}
	return v
}

// ---------------------------------------------------------------------------

type verifIOSSide struct {
	aclName string
	idx     []int // menu indices (symbolic)
}

func verifParseSkeleton(s *State, aclName string, withACL bool) *Config {
	text := "interface Ethernet0\n ip address 10.1.1.1 255.255.255.0\n ip access-group " + aclName + " in\n"
	if withACL {
		text += "ip access-list extended " + aclName + "\n permit ip host 10.255.255.1 any\n"
	}
	cf, err := s.ParseConfig([]byte(text), "<skeleton>")
	if err != nil {
		panic(err)
	}
	return cf.(*Config)
}

// verifBuildIOSConfig builds a configuration whose ACL consists of the
// symbolic lines given by menu indices.
func verifBuildIOSConfig(s *State, mn *verifMenu, aclName string, lines []string) *Config {
	return verifBuildIOSConfigSeq(s, mn, aclName, lines, nil)
}

// seqs: sequence numbers shown by the device (IOS-XE >= 16.12) or nil.
func verifBuildIOSConfigSeq(s *State, mn *verifMenu, aclName string, lines []string, seqs []int) *Config {
	cf := verifParseSkeleton(s, aclName, true)
	head := cf.lookup["ip access-list extended"][aclName][0]
	head.sub = nil
	for _, line := range lines {
		idx := vf.LookupString(mn.orig, line)
		parsed := vf.SelectString(idx, mn.parsed)
		action, _, _ := strings.Cut(parsed, " ")
		typ := mn.typ[vf.FixString(action)]
		c := &cmd{typ: typ, orig: line, parsed: parsed, subCmdOf: head}
		if seqs != nil {
			c.seq = seqs[len(head.sub)]
		}
		head.sub = append(head.sub, c)
	}
	return cf
}

func verifPickLines(tag string, n int, mn *verifMenu) []string {
	var l []string
	for i := 0; i < n; i++ {
		l = append(l, vf.Pick(tag+strconv.Itoa(i), mn.orig))
	}
	return l
}

// verifNoDup assumes that no two lines of l are the same entry modulo log
// (the device rejects such ACLs, Netspoc does not generate them).
func verifNoDup(mn *verifMenu, l []string) {
	for i := range l {
		if strings.HasPrefix(l[i], "remark ") {
			continue
		}
		for j := 0; j < i; j++ {
			// compared in parsed form: 'eq 80' and 'eq www' are the same entry
			pi := verifStripLog.ReplaceAllString(vf.SelectString(vf.LookupString(mn.orig, l[i]), mn.parsed), "")
			pj := verifStripLog.ReplaceAllString(vf.SelectString(vf.LookupString(mn.orig, l[j]), mn.parsed), "")
			vf.Assume(pi != pj)
		}
	}
}

func verifIOSModelFrom(mn *verifMenu, aclName string, lines []string) *verifIOSModel {
	m := &verifIOSModel{menu: mn, acls: map[string][]*verifIOSEntry{}, bind: map[string]string{}}
	var l []*verifIOSEntry
	for i, line := range lines {
		l = append(l, &verifIOSEntry{seq: 10 * (i + 1), line: line})
	}
	m.setACL(aclName, l)
	m.bind["Ethernet0 in"] = aclName
	return m
}

func (m *verifIOSModel) aclLines(key string) (string, []string) {
	name := m.bind[key]
	var lines []string
	for _, e := range m.acls[name] {
		lines = append(lines, e.line)
	}
	return name, lines
}

func (m *verifIOSModel) aclSeqs(name string, xe bool) []int {
	if !xe {
		return nil
	}
	var l []int
	for _, e := range m.acls[name] {
		l = append(l, e.seq)
	}
	return l
}

// VerifIOSACL is the converge harness for IOS ACLs.
func VerifIOSACL(cmdInfo string) {
	N, _ := strconv.Atoi(vf.Param("N", "2"))
	K, _ := strconv.Atoi(vf.Param("K", "8"))
	cut := vf.Param("cut", "0") == "1"
	vf.Assumption("ACL lines are drawn from a menu of " + strconv.Itoa(K) + " lines; no ACL contains the same entry twice modulo log (device rejects duplicates, Netspoc does not emit them)")
	vf.Assumption("IOS model: numbered insert rejects used sequence numbers and duplicate entries (modulo log|log-input); 'no <seq>' needs the entry; an undefined or empty bound ACL permits all; implicit deny at the end")
	s := &State{Model: "IOS"}
	s.SetupParser(cmdInfo)
	mn := verifBuildIOSMenu(s, K)

	NB := N
	if x := vf.Param("NB", ""); x != "" {
		NB, _ = strconv.Atoi(x)
	}
	n := vf.Int("n", 0, N)
	m := vf.Int("m", 1, NB)
	vf.Assumption("the target ACL has at least one line (Netspoc does not generate empty ACLs)")
	aLines := verifPickLines("a", n, mn)
	bLines := verifPickLines("b", m, mn)
	verifNoDup(mn, aLines)
	verifNoDup(mn, bLines)
	flags := vf.Param("flags", "")
	aName := "e0_in-DRC-0"
	if strings.Contains(flags, "name") && !vf.Bool("deviceHasGeneratedName") {
		aName = "e0_in"
	}
	bName := "e0_in"

	// IOS-XE >= 16.12 shows sequence numbers in the configuration
	xe := strings.Contains(flags, "xe") && vf.Bool("deviceShowsSequenceNumbers")
	var aSeqs []int
	if xe {
		for i := range aLines {
			aSeqs = append(aSeqs, 10*(i+1))
		}
		vf.Cover("device shows sequence numbers")
	}
	confA := verifBuildIOSConfigSeq(s, mn, aName, aLines, aSeqs)
	confB := verifBuildIOSConfig(s, mn, bName, bLines)
	if err := s.GetChanges(confA, confB); err != nil {
		vf.Assert(false, "C02: GetChanges failed on accepted input: "+err.Error())
		return
	}
	changes := s.Changes
	vf.Note("A:", strings.Join(aLines, " / "), "B:", strings.Join(bLines, " / "))
	for _, c := range changes {
		vf.Note("CHG:", c)
	}
	model := verifIOSModelFrom(mn, aName, aLines)
	key := "Ethernet0 in"

	p := vf.Int("packetClass", 0, verifNClasses-1)
	vA := mn.verdict(aLines, p)
	vB := mn.verdict(bLines, p)
	agree := vf.EqInt(vA, vB)

	if len(changes) == 0 {
		vf.Cover("no change reported")
		// 'device unchanged' only for an equivalent device
		vf.Assert(agree, "C02: IOS: no change reported although device ACL filters differently from target")
	} else {
		vf.Cover("changes emitted")
	}
	for _, c := range changes {
		if strings.Contains(c, "\n") {
			vf.Cover("move emitted (joined delete+add)")
		}
	}

	// ghost: do old and new ACL share a line (by the tool's comparison key)?
	// Without a common line the tool deletes all old lines and then adds the
	// new ones (diffCmds, "no parts are equal").
	share := false
	for _, a := range confA.lookup["ip access-list extended"][aName][0].sub {
		for _, b := range bLines {
			share = vf.Or(share, a.parsed == vf.SelectString(vf.LookupString(mn.orig, b), mn.parsed))
		}
	}
	// ghost: remark lines present (they belong to every block in the tool's
	// block marking); concrete on every path because remark has its own command type
	tag := ""
	for _, l := range append(append([]string{}, aLines...), bLines...) {
		if vf.FixString(getIOSActionOfText(l)) == "remark" {
			tag = " [ACL has remark lines]"
		}
	}
	if tag != "" {
		vf.Cover("ACL has remark lines")
	}
	// ghost: a line common to old and new ACL (modulo log) changes its
	// position relative to another common line or its log attribute: the
	// script deletes and re-adds it (a "move"), which takes the line away from
	// its old place before the later deletes run.
	// (lines are compared the way the tool does: by their parsed form, so
	// that 'eq 80' and 'eq www' are the same line)
	canon := func(l string) string {
		return verifStripLog.ReplaceAllString(vf.SelectString(vf.LookupString(mn.orig, l), mn.parsed), "")
	}
	matchB := make([]int, len(aLines))
	for i, a := range aLines {
		matchB[i] = -1
		for j, b := range bLines {
			if canon(a) == canon(b) {
				matchB[i] = j
			}
		}
	}
	moved := false
	for i := range matchB {
		if matchB[i] >= 0 && aLines[i] != bLines[matchB[i]] {
			moved = true
		}
		for i2 := i + 1; i2 < len(matchB); i2++ {
			if matchB[i] >= 0 && matchB[i2] >= 0 && matchB[i] > matchB[i2] {
				moved = true
			}
		}
	}
	// ghost: the device ACL has remark lines only (no entry): it permits
	// everything until the first entry arrives
	onlyRemarks := len(aLines) > 0
	for _, l := range aLines {
		if vf.FixString(getIOSActionOfText(l)) != "remark" {
			onlyRemarks = false
		}
	}
	cause := ""
	if onlyRemarks {
		cause = " [device ACL holds remark lines only: it permits everything until its first entry is added]"
		vf.Cover("device ACL holds remark lines only")
	} else if !share {
		cause = " [old and new ACL share no line]"
		vf.Cover("old and new ACL share no line")
	} else if moved {
		cause = " [a common line is deleted and re-added: reordered or log attribute changes]"
		vf.Cover("a common line is deleted and re-added")
	} else {
		vf.Cover("pure inserts and deletes around common lines")
	}
	cause += tag
	k := len(changes)
	if cut {
		k = vf.Int("cut", 0, len(changes))
	}
	for i, c := range changes[:k] {
		if cut && i == k-1 && strings.Contains(c, "\n") && vf.Bool("cutBetweenHalvesOfJoinedLine") {
			// the connection broke between the two commands of a replacement
			first, _, _ := strings.Cut(c, "\n")
			model.exec(first)
			vf.Cover("cut between the halves of a replacement")
			break
		}
		model.execStep(c)
		// C14: a packet on which old and new ACL agree keeps that verdict
		now := model.verdict(key, p)
		vf.Assert(vf.Or(vf.Not(agree), vf.EqInt(now, vA)),
			"C14: IOS: verdict of a packet on which old and new ACL agree changes at an intermediate step"+cause)
		_ = i
	}
	if cut {
		// C10: resume from the partially changed device
		vf.Cover("resumed after cut")
		name2, lines2 := model.aclLines(key)
		s2 := &State{Model: "IOS"}
		s2.SetupParser(cmdInfo)
		confA2 := verifBuildIOSConfigFromModel(s2, mn, model, name2, lines2, xe)
		confB2 := verifBuildIOSConfig(s2, mn, bName, bLines)
		if err := s2.GetChanges(confA2, confB2); err != nil {
			vf.Assert(false, "C10: GetChanges failed on partially changed device: "+err.Error())
			return
		}
		for _, c := range s2.Changes {
			model.execStep(c)
		}
	}
	// final state equivalent to target
	vEnd := model.verdict(key, p)
	lbl := "C02"
	if cut {
		lbl = "C10"
	}
	vf.Assert(vf.EqInt(vEnd, vB), lbl+": IOS: after executing the script the ACL filters differently from the target"+tag)
	// second compare is silent
	name3, lines3 := model.aclLines(key)
	s3 := &State{Model: "IOS"}
	s3.SetupParser(cmdInfo)
	confA3 := verifBuildIOSConfigFromModel(s3, mn, model, name3, lines3, xe)
	confB3 := verifBuildIOSConfig(s3, mn, bName, bLines)
	if err := s3.GetChanges(confA3, confB3); err != nil {
		vf.Assert(false, lbl+": second compare failed: "+err.Error())
		return
	}
	vf.Assert(len(s3.Changes) == 0, lbl+": IOS: second compare still reports changes"+tag)
}

// verifBuildIOSConfigFromModel converts the model state back into a device
// configuration (all ACLs of the model, binding of Ethernet0).
func verifBuildIOSConfigFromModel(s *State, mn *verifMenu, model *verifIOSModel, bound string, lines []string, xe bool) *Config {
	cf := verifBuildIOSConfigSeq(s, mn, bound, lines, model.aclSeqs(bound, xe))
	for _, name := range model.aclOrder {
		if name == bound {
			continue
		}
		if _, ok := model.acls[name]; !ok {
			continue
		}
		var ll []string
		for _, e := range model.acls[name] {
			ll = append(ll, e.line)
		}
		other := verifBuildIOSConfigSeq(s, mn, name, ll, model.aclSeqs(name, xe))
		cf.lookup["ip access-list extended"][name] = other.lookup["ip access-list extended"][name]
	}
	return cf
}

func getIOSActionOfText(l string) string {
	a, _, _ := strings.Cut(l, " ")
	return a
}

func regexpMust(s string) *regexp.Regexp { return regexp.MustCompile(s) }
