package linux

// C05 harness (and the route part of C14): Linux static routes and iptables.

import (
	"strconv"
	"strings"

	"github.com/hknutzen/Netspoc-Approve/go/pkg/vf"
)

// the /16 and the /24 share their network address
var verifDst = []string{"default", "10.1.0.0/16", "10.1.0.0/24", "10.2.2.2"}

// probe addresses: outside all networks, inside the /16 only, inside the /24,
// the host; verifCovers[p] lists the destinations that contain probe p
var verifCovers = [][]int{{0}, {0, 1}, {0, 1, 2}, {0, 3}}
var verifHop = []string{"10.9.1.1", "10.9.1.2", "10.9.1.3"}

type verifRoute struct {
	d, h int // symbolic indices into verifDst / verifHop
}

// device spelling: one line of 'ip route show'
func verifShowLine(r verifRoute, variant int) string {
	l := vf.SelectString(r.d, verifDst) + " via " + vf.SelectString(r.h, verifHop)
	switch variant {
	case 1:
		l += " dev eth0"
	}
	return l
}

// Netspoc spelling
func verifSpocLine(r verifRoute, slash32 bool) string {
	d := vf.SelectString(r.d, verifDst)
	if slash32 {
		d = vf.SelectString(r.d, []string{"default", "10.1.0.0/16", "10.1.0.0/24", "10.2.2.2/32"})
	}
	return "ip route add " + d + " via " + vf.SelectString(r.h, verifHop)
}

type verifRouteModel struct {
	routes []verifRoute
}

func verifSame(a, b verifRoute) bool {
	return vf.And(vf.TermBool(vf.EqInt(a.d, b.d)), vf.TermBool(vf.EqInt(a.h, b.h)))
}

func (m *verifRouteModel) has(r verifRoute) bool {
	f := false
	for _, x := range m.routes {
		f = vf.Or(f, verifSame(x, r))
	}
	return f
}

func (m *verifRouteModel) hasDst(d int) bool {
	f := false
	for _, x := range m.routes {
		f = vf.Or(f, vf.TermBool(vf.EqInt(x.d, d)))
	}
	return f
}

// covered: some active route contains probe address p
func (m *verifRouteModel) covered(p int) bool {
	f := false
	for _, x := range m.routes {
		for _, d := range verifCovers[p] {
			f = vf.Or(f, vf.TermBool(vf.EqInt(x.d, d)))
		}
	}
	return f
}

// parseCmd maps an emitted command back to (add/del, route): leaf-wise lookup
// of destination and hop texts.
func verifParseRouteCmd(c string) (bool, verifRoute) {
	rest, isAdd := strings.CutPrefix(c, "ip route add ")
	if !isAdd {
		rest = strings.TrimPrefix(c, "ip route del ")
	}
	w := strings.Fields(rest)
	d := strings.TrimSuffix(w[0], "/32")
	return isAdd, verifRoute{d: vf.LookupString(verifDst, d), h: vf.LookupString(verifHop, w[2])}
}

func (m *verifRouteModel) exec(chg string) {
	for _, c := range strings.Split(chg, "\n") {
		isAdd, r := verifParseRouteCmd(c)
		vf.Assert(vf.Not(vf.Or(vf.TermBool(vf.EqInt(r.d, -1)), vf.TermBool(vf.EqInt(r.h, -1)))), "C05: emitted route command names an unknown destination or hop")
		if isAdd {
			vf.Assert(vf.Not(m.has(r)), "C05: 'ip route add' of a route that is already active")
			m.routes = append(m.routes, r)
		} else {
			// delete: exactly one matching route must exist; remove it
			vf.Assert(m.has(r), "C05: 'ip route del' of a route that is not active")
			var nl []verifRoute
			removed := false
			for _, x := range m.routes {
				same := verifSame(x, r)
				// fork: the model needs a concrete structure
				if !removed && same {
					removed = true
					continue
				}
				nl = append(nl, x)
			}
			m.routes = nl
		}
	}
}

// VerifRoutes: all pairs of route sets.
func VerifRoutes() {
	N, _ := strconv.Atoi(vf.Param("N", "2"))
	vf.Assumption("routes are drawn from 4 destinations (default, a /16, a /24 with the same network address inside it, a host) x 3 next hops; 4 probe addresses (outside, in the /16 only, in the /24, the host); device and target may have several routes to one destination; device lines in 'ip route show' spelling (plain, with 'dev eth0') plus one kernel/link-scope line that must be ignored")
	n := vf.Int("n", 0, N)
	m := vf.Int("m", 0, N)
	var A, B []verifRoute
	var aLines, bLines []string
	for i := 0; i < n; i++ {
		t := "a" + strconv.Itoa(i)
		r := verifRoute{d: vf.Int(t+".dst", 0, len(verifDst)-1), h: vf.Int(t+".hop", 0, len(verifHop)-1)}
		for _, x := range A {
			vf.Assume(vf.Not(verifSame(x, r))) // the kernel holds a route once
		}
		A = append(A, r)
		aLines = append(aLines, "ip route add "+verifShowLine(r, vf.FixInt(vf.Int(t+".spelling", 0, 1))))
	}
	if vf.Bool("kernelRoute") {
		aLines = append(aLines, "ip route add 10.9.1.0/24 dev eth0 proto kernel scope link src 10.9.1.9")
		vf.Cover("kernel/link-scope route on device")
	}
	for i := 0; i < m; i++ {
		t := "b" + strconv.Itoa(i)
		r := verifRoute{d: vf.Int(t+".dst", 0, len(verifDst)-1), h: vf.Int(t+".hop", 0, len(verifHop)-1)}
		for _, x := range B {
			// a route is listed once; several routes to one destination are allowed
			vf.Assume(vf.Not(verifSame(x, r)))
		}
		B = append(B, r)
		bLines = append(bLines, verifSpocLine(r, vf.Bool(t+".slash32")))
	}
	ra := parseRoutes(aLines)
	rb := parseRoutes(bLines)
	changes := diffRoutes(ra, rb)
	for _, c := range changes {
		vf.Note("CHG:", c)
		if strings.Contains(c, "\n") {
			vf.Cover("replace in one transaction")
		}
	}
	model := &verifRouteModel{routes: append([]verifRoute{}, A...)}
	if len(changes) == 0 {
		vf.Cover("no change reported")
	}
	step := func(c string) {
		model.exec(c)
		// C14: a destination routed before and after stays routed
		for d := 0; d < len(verifDst); d++ {
			before := (&verifRouteModel{routes: A}).hasDst(d)
			after := (&verifRouteModel{routes: B}).hasDst(d)
			vf.Assert(vf.Or(vf.Not(vf.And(before, after)), model.hasDst(d)),
				"C14: Linux: a destination that has a route before and after the change has none at an intermediate step")
		}
		// the same for addresses: routed (by any containing route) before and after
		for p := range verifCovers {
			before := (&verifRouteModel{routes: A}).covered(p)
			after := (&verifRouteModel{routes: B}).covered(p)
			vf.Assert(vf.Or(vf.Not(vf.And(before, after)), model.covered(p)),
				"C14: Linux: an address that is routed before and after the change is unrouted at an intermediate step")
		}
	}
	lbl := "C05"
	k := len(changes)
	if vf.Param("cut", "0") == "1" {
		// the approve is cut off after k commands and run again
		lbl = "C10"
		k = vf.Int("cut", 0, len(changes))
	}
	for _, c := range changes[:k] {
		step(c)
	}
	if lbl == "C10" {
		vf.Cover("resumed after cut")
		var linesCut []string
		for _, r := range model.routes {
			linesCut = append(linesCut, "ip route add "+verifShowLine(r, 0))
		}
		for _, c := range diffRoutes(parseRoutes(linesCut), parseRoutes(bLines)) {
			vf.Note("CHG2:", c)
			step(c)
		}
	}
	// end state: exactly the target's routes
	vf.Assert(len(model.routes) == len(B), lbl+": number of active routes after the script differs from the target")
	for _, r := range B {
		vf.Assert(model.has(r), lbl+": a target route is missing after the script")
	}
	for _, r := range model.routes {
		vf.Assert((&verifRouteModel{routes: B}).has(r), lbl+": a route that is not in the target is still active after the script")
	}
	// second compare on what the device prints now
	var lines2 []string
	for _, r := range model.routes {
		lines2 = append(lines2, "ip route add "+verifShowLine(r, 0))
	}
	if len(diffRoutes(parseRoutes(lines2), parseRoutes(bLines))) != 0 {
		vf.Assert(false, lbl+": second compare of routes still reports changes")
	}
}

// ---------------------------------------------------------------------------
// iptables: abstract rules rendered in Netspoc spelling and in the spelling
// of iptables-save; the real parser/normaliser/differ must treat two
// spellings of the same abstract rule as equal and different abstract rules
// as different.

type verifIPTRule struct {
	src   int // 0 none, 1 host 10.1.1.1, 2 net 10.1.1.0/24
	neg   int // 0/1 negated source (only with src != 0)
	proto int // 0 none, 1 tcp, 2 udp, 3 vrrp
	dport int // 0 none, 1 port 80, 2 range 80..65535 (only tcp/udp)
	state int // 0 none, 1 ESTABLISHED+RELATED
	syn   int // 0 none, 1 --syn, 2 ! --syn (only tcp; Netspoc writes only the negated form)
	jump  int // 0 ACCEPT, 1 DROP, 2 chain c1
}

var verifLight = false

// verifNoSyn drops the SYN match dimension (used for the runs with two rules per side)
var verifNoSyn = false

func verifPickRule(t string) verifIPTRule {
	r := verifIPTRule{}
	if verifLight {
		// fewer dimensions: source, negation, protocol, jump
		r.src = vf.FixInt(vf.Int(t+".src", 0, 2))
		if r.src != 0 {
			r.neg = vf.FixInt(vf.Int(t+".neg", 0, 1))
		}
		r.proto = vf.Int(t+".proto", 0, 3)
		r.jump = vf.Int(t+".jump", 0, 2)
		return r
	}
	r.src = vf.FixInt(vf.Int(t+".src", 0, 2))
	if r.src != 0 {
		r.neg = vf.FixInt(vf.Int(t+".neg", 0, 1))
	}
	r.proto = vf.Int(t+".proto", 0, 3)
	r.dport = vf.Int(t+".dport", 0, 2)
	vf.Assume(vf.Or(vf.EqInt(r.dport, 0), vf.Or(vf.EqInt(r.proto, 1), vf.EqInt(r.proto, 2))))
	r.state = vf.FixInt(vf.Int(t+".state", 0, 1))
	if verifNoSyn {
		r.syn = 0
	} else if strings.HasPrefix(t, "a") {
		r.syn = vf.FixInt(vf.Int(t+".syn", 0, 2))
	} else {
		r.syn = 2 * vf.FixInt(vf.Int(t+".syn", 0, 1))
	}
	if r.syn != 0 {
		vf.Assume(vf.EqInt(r.proto, 1))
	}
	r.jump = vf.Int(t+".jump", 0, 2)
	return r
}

func verifSameRule(a, b verifIPTRule) bool {
	if a.src != b.src || a.neg != b.neg || a.state != b.state || a.syn != b.syn {
		return false
	}
	return vf.And(vf.EqInt(a.proto, b.proto), vf.And(vf.EqInt(a.dport, b.dport), vf.EqInt(a.jump, b.jump)))
}

// verifSpell renders rule r; v selects one spelling per field.
// kernel=true: the way iptables-save prints it.
func verifSpell(r verifIPTRule, t string, kernel bool) string {
	l := "-A INPUT"
	if r.src != 0 {
		host := "10.1.1.1"
		if kernel || vf.Bool(t+".slash32") {
			host = "10.1.1.1/32"
		}
		a := []string{"", host, "10.1.1.0/24"}[r.src]
		if r.neg == 1 {
			if kernel || vf.Bool(t+".negFirst") {
				l += " ! -s " + a
			} else {
				l += " -s ! " + a
			}
		} else {
			l += " -s " + a
		}
	}
	// protocol: Netspoc writes names in any case or vrrp, the kernel lower case / 112
	if kernel {
		l += vf.SelectString(r.proto, []string{"", " -p tcp", " -p udp", " -p 112"})
		// the kernel adds '-m <proto>' when port options are used
		withPort := vf.Not(vf.EqInt(r.dport, 0))
		if r.syn != 0 {
			withPort = true
		}
		l += vf.IteString(withPort, vf.SelectString(r.proto, []string{"", " -m tcp", " -m udp", ""}), "")
		l += vf.SelectString(r.dport, []string{"", " --dport 80", " --dport 80:65535"})
		l += []string{"", " --tcp-flags FIN,SYN,RST,ACK SYN", " ! --tcp-flags FIN,SYN,RST,ACK SYN"}[r.syn]
	} else {
		up := vf.Bool(t + ".upperProto")
		l += vf.IteString(up, vf.SelectString(r.proto, []string{"", " -p TCP", " -p UDP", " -p VRRP"}),
			vf.SelectString(r.proto, []string{"", " -p tcp", " -p udp", " -p vrrp"}))
		open := vf.Bool(t + ".openRange")
		l += vf.IteString(open, vf.SelectString(r.dport, []string{"", " --dport 80", " --dport 80:"}),
			vf.SelectString(r.dport, []string{"", " --dport 080", " --dport 80:65535"}))
		l += []string{"", " --syn", " ! --syn"}[r.syn]
	}
	if r.state == 1 {
		if kernel {
			l += " -m state --state RELATED,ESTABLISHED"
		} else {
			l += " -m state --state ESTABLISHED,RELATED"
		}
	}
	l += " -j " + vf.SelectString(r.jump, []string{"ACCEPT", "DROP", "c1"})
	return l
}

// VerifIPTables: one chain with up to N rules per side.
func VerifIPTables() {
	N, _ := strconv.Atoi(vf.Param("N", "1"))
	verifNoSyn = vf.Param("nosyn", "0") == "1"
	vf.Assumption("iptables rules are built from abstract fields (source none/host/net, negation, protocol none/tcp/udp/vrrp, dport none/80/80..65535, state, SYN flag match --syn / --tcp-flags FIN,SYN,RST,ACK SYN with and without negation on the device and negated in the target, jump) in the documented spellings of Netspoc and of iptables-save (/32, upper/lower case, vrrp|112, -m <proto>, 080, 80:|80:65535, state order, '!' before or behind the key)")
	n := vf.Int("n", 0, N)
	m := vf.Int("m", 0, N)
	var A, B []verifIPTRule
	head := []string{"*filter", ":INPUT DROP", ":c1 -"}
	aLines := append([]string{}, head...)
	bLines := append([]string{}, head...)
	kLines := append([]string{}, head...)
	for i := 0; i < n; i++ {
		t := "a" + strconv.Itoa(i)
		r := verifPickRule(t)
		A = append(A, r)
		aLines = append(aLines, verifSpell(r, t, true))
	}
	for i := 0; i < m; i++ {
		t := "b" + strconv.Itoa(i)
		r := verifPickRule(t)
		B = append(B, r)
		bLines = append(bLines, verifSpell(r, t, false))
		kLines = append(kLines, verifSpell(r, t, true))
	}
	aLines = append(aLines, "COMMIT")
	bLines = append(bLines, "COMMIT")
	kLines = append(kLines, "COMMIT")
	s := &State{}
	ta := s.parseIPTables(aLines)
	tb := s.parseIPTables(bLines)
	d := diffIPTables(ta, tb)
	same := len(A) == len(B)
	if same {
		for i := range A {
			same = vf.And(same, verifSameRule(A[i], B[i]))
		}
	}
	if d == "" {
		vf.Cover("iptables reported as unchanged")
		vf.Assert(same, "C05: iptables reported unchanged although the rulesets differ")
	} else {
		vf.Cover("iptables difference reported")
		vf.Assert(vf.Not(same), "C05: iptables difference reported for two spellings of the same ruleset (would never converge)")
		// the restore file reproduces the target verbatim
		out := getIPTablesConfig(tb)
		vf.Assert(len(out) == len(bLines), "C05: emitted iptables-restore file has a different number of lines than the target")
		for i := range out {
			if i < len(bLines) {
				vf.Assert(out[i] == bLines[i], "C05: emitted iptables-restore file differs from the target ruleset")
			}
		}
	}
	// what the device prints after loading the target compares equal to the target
	tk := s.parseIPTables(kLines)
	vf.Assert(diffIPTables(tk, tb) == "", "C05: target compared with its own kernel spelling reports a change")
}

// VerifDeterminismLinux (C16): the reported difference of two rulesets must
// not depend on map iteration order.
func VerifDeterminismLinux() {
	vf.Assumption("map iteration schedules explored by the executor: insertion order, reversed, rotated by one (native replay: 200 runs under Go's random map order)")
	verifLight = vf.Param("light", "0") == "1"
	head := []string{"*filter", ":INPUT DROP", ":c1 -"}
	ra := verifPickRule("a0")
	rb := verifPickRule("b0")
	aLines := append(append([]string{}, head...), verifSpell(ra, "a0", true), "COMMIT")
	bLines := append(append([]string{}, head...), verifSpell(rb, "b0", false), "COMMIT")
	// number of differing fields (ghost)
	ndiff := 0
	if ra.src != rb.src || ra.neg != rb.neg {
		ndiff++
	}
	if ra.state != rb.state {
		ndiff++
	}
	if ra.syn != rb.syn {
		ndiff++
	}
	if vf.FixInt(ra.proto) != vf.FixInt(rb.proto) {
		ndiff++
	}
	if vf.FixInt(ra.dport) != vf.FixInt(rb.dport) {
		ndiff++
	}
	if vf.FixInt(ra.jump) != vf.FixInt(rb.jump) {
		ndiff++
	}
	tag := ""
	if ndiff >= 2 {
		tag = " [rules differ in two or more options]"
		vf.Cover("rules differ in two or more options")
	}
	runs := 3
	if !vf.Symbolic() {
		runs = 200
	}
	first := ""
	for r := 0; r < runs; r++ {
		vf.MapOrder(r % 3)
		s := &State{}
		d := diffIPTables(s.parseIPTables(aLines), s.parseIPTables(bLines))
		if r == 0 {
			first = d
			continue
		}
		vf.Assert(d == first, "C16: Linux: reported iptables difference depends on map iteration order"+tag)
	}
	vf.MapOrder(0)
}
