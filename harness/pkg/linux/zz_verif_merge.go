package linux

// C18 harness for Linux: the Netspoc chain is merged with the rules of the
// raw file (rules in front, rules behind [APPEND]); every rule of every part
// must appear exactly once, the order inside each part must be preserved,
// unmarked raw rules precede all Netspoc rules, [APPEND] rules follow the
// last Netspoc rule that is not a DROP and precede the trailing DROP rules.

import (
	"strconv"
	"strings"

	"github.com/hknutzen/Netspoc-Approve/go/pkg/vf"
)

func VerifMergeLinux() {
	N, _ := strconv.Atoi(vf.Param("N", "2"))
	vf.Assumption("Linux merge: one table filter, chain INPUT; Netspoc part with 0..N rules, raw part with 0..N rules in front and 0..N rules behind [APPEND]; every rule has its own source network, the target (ACCEPT / DROP) is solver-chosen; raw routes behind Netspoc routes")
	n := vf.Int("n", 0, N)
	p := vf.Int("p", 0, N)
	q := vf.Int("q", 0, N)
	mk := func(t string, cnt int, net string) ([]string, []bool) {
		var lines []string
		var drop []bool
		for i := 0; i < cnt; i++ {
			d := vf.Bool(t + strconv.Itoa(i) + ".drop")
			j := "ACCEPT"
			if d {
				j = "DROP"
			}
			lines = append(lines, "-A INPUT -s 10."+net+"."+strconv.Itoa(i)+".0/24 -j "+j)
			drop = append(drop, d)
		}
		return lines, drop
	}
	spoc, spocDrop := mk("spoc", n, "0")
	pre, _ := mk("pre", p, "1")
	app, _ := mk("app", q, "2")
	head := "*filter\n:INPUT DROP\n"
	aText := "ip route add 10.20.0.0/16 via 10.1.2.3\n" + head + strings.Join(spoc, "\n") + "\nCOMMIT\n"
	bText := "ip route add 10.30.0.0/16 via 10.1.2.4\n" + head + strings.Join(pre, "\n") + "\n[APPEND]\n" + strings.Join(app, "\n") + "\n"
	vf.Note("NETSPOC:\n"+aText, "RAW:\n"+bText)
	s := &State{}
	ca, err := s.ParseConfig([]byte(aText), "router")
	if err != nil {
		vf.Assert(false, "C18: Linux: Netspoc part rejected")
		return
	}
	cb, err := s.ParseConfig([]byte(bText), "router.raw")
	if err != nil {
		vf.Assert(false, "C18: Linux: raw part rejected")
		return
	}
	m := ca.(*config).MergeSpoc(cb).(*config)
	var got []string
	for _, r := range m.iptables["filter"]["INPUT"].rules {
		got = append(got, r.orig)
	}
	vf.Note("MERGED:", strings.Join(got, " | "))
	// expected order
	k := len(spoc)
	for k > 0 && spocDrop[k-1] {
		k--
	}
	var want []string
	want = append(want, pre...)
	want = append(want, spoc[:k]...)
	want = append(want, app...)
	want = append(want, spoc[k:]...)
	if len(pre) >= 2 {
		vf.Cover("two raw rules in front")
	}
	if len(app) >= 2 {
		vf.Cover("two [APPEND] rules")
	}
	if k < len(spoc) {
		vf.Cover("Netspoc chain ends with DROP rules")
	}
	// every rule exactly once
	count := func(l []string, x string) int {
		c := 0
		for _, y := range l {
			if y == x {
				c++
			}
		}
		return c
	}
	for _, x := range want {
		vf.Assert(count(got, x) == 1, "C18: Linux: a rule of one part is missing or duplicated in the merged chain")
	}
	vf.Assert(len(got) == len(want), "C18: Linux: merged chain has rules that belong to no part")
	index := func(x string) int {
		for i, y := range got {
			if y == x {
				return i
			}
		}
		return -1
	}
	inOrder := func(l []string) bool {
		for i := 1; i < len(l); i++ {
			if index(l[i-1]) > index(l[i]) {
				return false
			}
		}
		return true
	}
	vf.Assert(inOrder(spoc), "C18: Linux: relative order of the Netspoc rules not preserved")
	vf.Assert(inOrder(pre), "C18: Linux: relative order of the raw rules in front not preserved")
	vf.Assert(inOrder(app), "C18: Linux: relative order of the [APPEND] rules not preserved")
	vf.Assert(inOrder(append(append([]string{}, pre...), app...)), "C18: Linux: an [APPEND] rule precedes an unmarked rule of the same raw file")
	for _, x := range pre {
		for _, y := range spoc {
			vf.Assert(index(x) < index(y), "C18: Linux: an unmarked raw rule does not precede all Netspoc rules")
		}
	}
	for _, x := range app {
		for i, y := range spoc {
			if i < k {
				vf.Assert(index(y) < index(x), "C18: Linux: an [APPEND] rule precedes the last Netspoc rule that is not a DROP")
			} else {
				vf.Assert(index(x) < index(y), "C18: Linux: an [APPEND] rule follows a trailing DROP rule of Netspoc")
			}
		}
	}
	// routes
	var routes []string
	for _, r := range m.routes {
		routes = append(routes, r.orig)
	}
	vf.Assert(strings.Join(routes, "|") == "ip route add 10.20.0.0/16 via 10.1.2.3|ip route add 10.30.0.0/16 via 10.1.2.4", "C18: Linux: routes of Netspoc and raw part not merged completely and in order")
}
