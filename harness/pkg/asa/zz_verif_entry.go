package asa

import "github.com/hknutzen/Netspoc-Approve/go/pkg/cisco"

// Entry points: hand the ASA command description to the harnesses in package cisco.
func VerifMergeACL() { cisco.VerifMergeACL(cmdInfo, "ASA") }

func VerifASAACL() { cisco.VerifASAACL(cmdInfo) }

func VerifDeterminismASA() { cisco.VerifDeterminismASA(cmdInfo) }
