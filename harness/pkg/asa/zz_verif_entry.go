package asa

import "github.com/hknutzen/Netspoc-Approve/go/pkg/cisco"

// Entry points: hand the ASA command description to the harnesses in package cisco.
func VerifMergeACL() { cisco.VerifMergeACL(cmdInfo, "ASA") }

func VerifASAACL() { cisco.VerifASAACL(cmdInfo) }

func VerifDeterminismASA() { cisco.VerifDeterminismASA(cmdInfo) }

func VerifRoutesASA() {
	cisco.VerifRoutes(cisco.VerifRouteAPI{Model: "ASA", Changes: func(device, target string) ([]string, error) {
		s := Setup()
		c1, err := s.ParseConfig([]byte(device), "<device>")
		if err != nil {
			return nil, err
		}
		c2, err := s.ParseConfig([]byte(target), "router")
		if err != nil {
			return nil, err
		}
		if err := s.GetChanges(c1, c2); err != nil {
			return nil, err
		}
		return s.Changes, nil
	}})
}
