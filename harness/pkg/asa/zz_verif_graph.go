package asa

// Object-graph harness for ASA VPN objects (C01, C07, C08): username,
// group-policy (two commands per name), access-lists of several lines, ip
// local pool, tunnel-group, ldap attribute-map and aaa-server, with
// left-over generated objects and manually created (unmanaged) objects that
// reference generated ones. Device and target are assembled from blocks that
// the solver selects, parsed by the real parser, planned by the real
// GetChanges; the emitted script is executed on a text-level model of the
// ASA configuration store.

import (
	"sort"
	"strconv"
	"strings"

	"github.com/hknutzen/Netspoc-Approve/go/pkg/vf"
)

type gEntry struct {
	top  string
	subs []string
}

type gModel struct {
	entries []*gEntry
	mode    *gEntry
	// objects outside Netspoc's scope (C07)
	outside map[gRef]bool
	// an 'exit' at configuration level has left configuration mode: the
	// device refuses every further configuration command
	leftConfig bool
}

type gRef struct{ kind, name string }

// kind and name of the object a top-level line belongs to
func gKindName(top string) (string, string) {
	w := strings.Fields(top)
	switch {
	case len(w) >= 2 && w[0] == "access-list":
		return "access-list", w[1]
	case len(w) >= 3 && w[0] == "object-group":
		return "object-group", w[2]
	case len(w) >= 4 && w[0] == "ip" && w[1] == "local" && w[2] == "pool":
		return "ip local pool", w[3]
	case len(w) >= 5 && w[0] == "crypto" && w[1] == "ca" && w[2] == "certificate" && w[3] == "map":
		return "crypto ca certificate map", w[4]
	case len(w) >= 5 && w[0] == "crypto" && w[1] == "ipsec" && w[2] == "ikev1" && w[3] == "transform-set":
		return "transform-set", w[4]
	case len(w) == 5 && w[0] == "crypto" && w[1] == "map" && w[3] == "interface":
		return "crypto map interface", top
	case len(w) >= 5 && w[0] == "crypto" && w[1] == "map":
		return "crypto map", w[2]
	case len(w) >= 3 && w[0] == "group-policy":
		return "group-policy", w[1]
	case len(w) >= 3 && w[0] == "tunnel-group":
		return "tunnel-group", w[1]
	case len(w) >= 3 && w[0] == "username":
		return "username", w[1]
	case len(w) >= 3 && w[0] == "aaa-server":
		return "aaa-server", w[1]
	case len(w) >= 3 && w[0] == "ldap" && w[1] == "attribute-map":
		return "ldap attribute-map", w[2]
	case len(w) >= 1 && (w[0] == "access-group" || w[0] == "tunnel-group-map" || w[0] == "webvpn" || w[0] == "interface"):
		return w[0], top
	}
	return "", ""
}

func gIsTop(c string) bool {
	k, _ := gKindName(c)
	return k != ""
}

// anchors: commands Netspoc binds its configuration to
func gIsAnchor(kind, name string) bool {
	switch kind {
	case "username", "access-group", "tunnel-group-map", "webvpn", "interface", "crypto map interface":
		return true
	case "tunnel-group":
		// tunnel-group with an IP address as name
		return strings.Count(name, ".") == 3
	}
	return false
}

func gOpensMode(top string) bool {
	w := strings.Fields(top)
	switch w[0] {
	case "group-policy", "username":
		return w[2] == "attributes"
	case "tunnel-group":
		return strings.HasSuffix(w[2], "-attributes")
	case "aaa-server":
		return w[2] != "protocol"
	case "ldap", "object-group", "webvpn", "interface":
		return true
	case "crypto":
		return w[1] == "ca"
	}
	return false
}

// references of one line
func gRefs(top, sub string) []gRef {
	var l []gRef
	w := strings.Fields(top)
	if sub == "" {
		switch w[0] {
		case "access-list":
			for i, x := range w {
				if x == "object-group" && i+1 < len(w) {
					l = append(l, gRef{"object-group", w[i+1]})
				}
			}
		case "access-group":
			l = append(l, gRef{"access-list", w[1]})
		case "crypto":
			if len(w) == 5 && w[1] == "map" && w[3] == "interface" {
				l = append(l, gRef{"crypto map", w[2]})
			}
			if len(w) == 7 && w[1] == "map" && w[4] == "match" && w[5] == "address" {
				l = append(l, gRef{"access-list", w[6]})
			}
			if len(w) >= 8 && w[1] == "map" && w[4] == "set" && w[5] == "ikev1" && w[6] == "transform-set" {
				for _, t := range w[7:] {
					l = append(l, gRef{"transform-set", t})
				}
			}
		case "tunnel-group-map":
			if w[1] == "default-group" {
				l = append(l, gRef{"tunnel-group", w[2]})
			} else {
				l = append(l, gRef{"crypto ca certificate map", w[1]}, gRef{"tunnel-group", w[3]})
			}
		}
		return l
	}
	s := strings.Fields(sub)
	switch w[0] {
	case "group-policy":
		if len(s) == 3 && s[1] == "value" {
			switch s[0] {
			case "vpn-filter", "split-tunnel-network-list":
				l = append(l, gRef{"access-list", s[2]})
			case "address-pools":
				l = append(l, gRef{"ip local pool", s[2]})
			}
		}
	case "username":
		if len(s) == 3 && s[0] == "vpn-filter" {
			l = append(l, gRef{"access-list", s[2]})
		}
		if len(s) == 2 && s[0] == "vpn-group-policy" {
			l = append(l, gRef{"group-policy", s[1]})
		}
	case "tunnel-group":
		if len(s) == 2 && s[0] == "default-group-policy" {
			l = append(l, gRef{"group-policy", s[1]})
		}
		if len(s) == 2 && s[0] == "authentication-server-group" {
			l = append(l, gRef{"aaa-server", s[1]})
		}
	case "aaa-server":
		if len(s) == 2 && s[0] == "ldap-attribute-map" {
			l = append(l, gRef{"ldap attribute-map", s[1]})
		}
	case "ldap":
		if len(s) == 4 && s[0] == "map-value" {
			l = append(l, gRef{"group-policy", s[3]})
		}
	case "webvpn":
		if len(s) == 4 && s[0] == "certificate-group-map" {
			l = append(l, gRef{"crypto ca certificate map", s[1]}, gRef{"tunnel-group", s[3]})
		}
	}
	return l
}

func (m *gModel) exists(r gRef) bool {
	// built-in objects
	if r.kind == "group-policy" && r.name == "DfltGrpPolicy" {
		return true
	}
	for _, e := range m.entries {
		k, n := gKindName(e.top)
		if k == r.kind && n == r.name {
			return true
		}
	}
	return false
}

// entries (other than those of the object itself) that refer to r
func (m *gModel) referrers(r gRef) []string {
	var l []string
	for _, e := range m.entries {
		k, n := gKindName(e.top)
		if k == r.kind && n == r.name {
			continue
		}
		for _, x := range gRefs(e.top, "") {
			if x == r {
				l = append(l, e.top)
			}
		}
		for _, s := range e.subs {
			for _, x := range gRefs(e.top, s) {
				if x == r {
					l = append(l, e.top+" / "+s)
				}
			}
		}
	}
	return l
}

func (m *gModel) reject(why, cmd string) {
	vf.Note("REJECT:", why, "at:", cmd)
	vf.Assert(false, "C08: ASA rejects command: "+why)
}

func (m *gModel) delObject(r gRef, cmd string) {
	if m.outside[r] {
		vf.Note("DELETES:", cmd)
		vf.Assert(false, "C07: ASA: command deletes an object outside Netspoc's scope ("+r.kind+")")
	}
	if !m.exists(r) {
		m.reject("object to be deleted does not exist ("+r.kind+")", cmd)
		return
	}
	if l := m.referrers(r); len(l) > 0 {
		vf.Note("still referenced by:", strings.Join(l, " ; "))
		m.reject("deleted object is still referenced ("+r.kind+")", cmd)
		return
	}
	var keep []*gEntry
	for _, e := range m.entries {
		k, n := gKindName(e.top)
		if !(k == r.kind && n == r.name) {
			keep = append(keep, e)
		}
	}
	m.entries = keep
}

// key of a single-valued crypto map attribute ("" for multi-valued ones)
func gCryptoKey(w []string) string {
	if len(w) < 6 || w[1] != "map" {
		return ""
	}
	switch {
	case w[4] == "match" && w[5] == "address":
		return "match address"
	case w[4] == "set" && w[5] == "pfs":
		return "set pfs"
	case w[4] == "set" && w[5] == "ikev1":
		return "set ikev1 transform-set"
	case w[4] == "set" && w[5] == "security-association" && len(w) >= 8:
		return "set security-association lifetime " + w[7]
	case w[4] == "set" && (w[5] == "nat-t-disable" || w[5] == "reverse-route"):
		return "set " + w[5]
	}
	return ""
}

func gSubKey(s string) string {
	w := strings.Fields(s)
	switch w[0] {
	case "map-value", "map-name", "subject-name", "extended-key-usage", "network-object":
		return s // multi-valued
	}
	return w[0]
}

func (m *gModel) aclLines(name string) []*gEntry {
	var l []*gEntry
	for _, e := range m.entries {
		if k, n := gKindName(e.top); k == "access-list" && n == name {
			l = append(l, e)
		}
	}
	return l
}

// strip "line N" from an access-list command
func gACLLine(w []string) (string, int) {
	pos := 0
	if len(w) > 3 && w[2] == "line" {
		for _, ch := range w[3] {
			pos = pos*10 + int(ch-'0')
		}
		w = append(append([]string{}, w[:2]...), w[4:]...)
	}
	return strings.Join(w, " "), pos
}

func (m *gModel) exec(c string) {
	w := strings.Fields(c)
	if len(w) == 0 {
		return
	}
	if len(w) >= 4 && w[0] == "clear" && w[1] == "configure" {
		m.mode = nil
		k, n := gKindName(strings.Join(w[2:], " ") + " x x")
		if k == "" {
			m.reject("unknown clear configure command", c)
			return
		}
		m.delObject(gRef{k, n}, c)
		return
	}
	if m.leftConfig {
		m.reject("command sent after configuration mode was left by a stray exit", c)
		return
	}
	if c == "exit" {
		if m.mode == nil {
			m.reject("exit outside of a configuration sub-mode", c)
			m.leftConfig = true
		}
		m.mode = nil
		return
	}
	neg := w[0] == "no"
	body := c
	if neg {
		body = strings.Join(w[1:], " ")
	}
	if gIsTop(body) {
		m.mode = nil
		bw := strings.Fields(body)
		if bw[0] == "access-list" {
			text, pos := gACLLine(bw)
			l := m.aclLines(bw[1])
			if neg {
				for i, e := range l {
					if e.top == text && (pos == 0 || pos == i+1) {
						if len(l) == 1 {
							// last line: the ACL vanishes
							if r := m.referrers(gRef{"access-list", bw[1]}); len(r) > 0 {
								m.reject("last line of a referenced access-list deleted", c)
								return
							}
						}
						m.remove(e)
						return
					}
				}
				m.reject("access-list line to be deleted not found at that position", c)
				return
			}
			for _, e := range l {
				if e.top == text {
					m.reject("access-list already contains this entry", c)
					return
				}
			}
			for _, r := range gRefs(text, "") {
				if !m.exists(r) {
					m.reject("reference to a missing "+r.kind, c)
					return
				}
			}
			if pos > len(l)+1 {
				m.reject("line number beyond the end of the access-list", c)
				return
			}
			ne := &gEntry{top: text}
			if pos == 0 || pos == len(l)+1 {
				if len(l) == 0 {
					m.entries = append(m.entries, ne)
				} else {
					m.insertAfter(l[len(l)-1], ne)
				}
			} else {
				m.insertBefore(l[pos-1], ne)
			}
			return
		}
		if k, _ := gKindName(body); k == "crypto map" && !neg {
			// crypto map NAME SEQ <attribute>: single-valued attributes are replaced
			key := gCryptoKey(bw)
			for _, r := range gRefs(body, "") {
				if !m.exists(r) {
					m.reject("reference to a missing "+r.kind, c)
					return
				}
			}
			for _, e := range m.entries {
				if e.top == body {
					m.reject("crypto map attribute that is already set", c)
					return
				}
			}
			if key != "" {
				for _, e := range m.entries {
					if ew := strings.Fields(e.top); len(ew) >= 5 && gCryptoKey(ew) == key && ew[2] == bw[2] && ew[3] == bw[3] {
						e.top = body
						return
					}
				}
			}
			m.entries = append(m.entries, &gEntry{top: body})
			return
		}
		if neg {
			k, n := gKindName(body)
			if k == "transform-set" {
				for _, e := range m.entries {
					if e.top == body {
						m.delObject(gRef{k, n}, c)
						return
					}
				}
				m.reject("transform-set to be deleted does not exist in that form", c)
				return
			}
			switch k {
			case "object-group", "crypto ca certificate map", "ldap attribute-map":
				m.delObject(gRef{k, n}, c)
				return
			}
			// one top-level line, spelled out
			for _, e := range m.entries {
				if e.top == body {
					if k == "ip local pool" || (k == "group-policy" && bw[2] == "internal") || (k == "tunnel-group" && bw[2] == "type") || (k == "username" && bw[2] == "nopassword") {
						m.delObject(gRef{k, n}, c)
					} else {
						m.remove(e)
					}
					return
				}
			}
			m.reject("top-level command to be deleted does not exist", c)
			return
		}
		for _, e := range m.entries {
			if e.top == body {
				if gOpensMode(body) {
					m.mode = e
				}
				return
			}
		}
		k, n := gKindName(body)
		switch {
		case k == "group-policy" && bw[2] == "attributes" && n != "DfltGrpPolicy":
			if !m.exists(gRef{k, n}) {
				m.reject("attributes of a group-policy that does not exist", c)
				return
			}
		case k == "tunnel-group" && strings.HasSuffix(bw[2], "-attributes"):
			if !m.exists(gRef{k, n}) {
				m.reject("attributes of a tunnel-group that does not exist", c)
				return
			}
		case k == "username" && bw[2] == "attributes":
			if !m.exists(gRef{k, n}) {
				m.reject("attributes of a user that does not exist", c)
				return
			}
		}
		for _, r := range gRefs(body, "") {
			if !m.exists(r) {
				m.reject("reference to a missing "+r.kind, c)
				return
			}
		}
		ne := &gEntry{top: body}
		m.entries = append(m.entries, ne)
		if gOpensMode(body) {
			m.mode = ne
		}
		return
	}
	// sub-command
	if m.mode == nil {
		m.reject("sub-command outside of a configuration sub-mode", c)
		return
	}
	e := m.mode
	if neg {
		for i, s := range e.subs {
			if s == body {
				e.subs = append(append([]string{}, e.subs[:i]...), e.subs[i+1:]...)
				return
			}
		}
		m.reject("sub-command to be removed is not set", c)
		return
	}
	for _, r := range gRefs(e.top, body) {
		if !m.exists(r) {
			m.reject("reference to a missing "+r.kind, c)
			return
		}
	}
	key := gSubKey(body)
	for i, s := range e.subs {
		if gSubKey(s) == key {
			e.subs[i] = body
			return
		}
	}
	e.subs = append(e.subs, body)
}

func (m *gModel) remove(x *gEntry) {
	var keep []*gEntry
	for _, e := range m.entries {
		if e != x {
			keep = append(keep, e)
		}
	}
	m.entries = keep
}

func (m *gModel) insertBefore(at, ne *gEntry) {
	var l []*gEntry
	for _, e := range m.entries {
		if e == at {
			l = append(l, ne)
		}
		l = append(l, e)
	}
	m.entries = l
}

func (m *gModel) insertAfter(at, ne *gEntry) {
	var l []*gEntry
	for _, e := range m.entries {
		l = append(l, e)
		if e == at {
			l = append(l, ne)
		}
	}
	m.entries = l
}

func (m *gModel) text() string {
	var b strings.Builder
	for _, e := range m.entries {
		b.WriteString(e.top + "\n")
		for _, s := range e.subs {
			b.WriteString(" " + s + "\n")
		}
	}
	return b.String()
}

func gParse(text string) *gModel {
	m := &gModel{}
	for _, l := range strings.Split(text, "\n") {
		if strings.TrimSpace(l) == "" || strings.HasPrefix(l, "!") {
			continue
		}
		if l[0] == ' ' {
			e := m.entries[len(m.entries)-1]
			e.subs = append(e.subs, strings.TrimSpace(l))
		} else {
			m.entries = append(m.entries, &gEntry{top: l})
		}
	}
	return m
}

// textual snapshot of one object
func (m *gModel) objText(r gRef) string {
	var b strings.Builder
	for _, e := range m.entries {
		if k, n := gKindName(e.top); k == r.kind && n == r.name {
			b.WriteString(e.top + "\n")
			for _, s := range e.subs {
				b.WriteString(" " + s + "\n")
			}
		}
	}
	return b.String()
}

func (m *gModel) objects() []gRef {
	var l []gRef
	seen := map[gRef]bool{}
	for _, e := range m.entries {
		k, n := gKindName(e.top)
		r := gRef{k, n}
		if !seen[r] {
			seen[r] = true
			l = append(l, r)
		}
	}
	return l
}

func (m *gModel) refsOf(r gRef) []gRef {
	var l []gRef
	for _, e := range m.entries {
		if k, n := gKindName(e.top); k == r.kind && n == r.name {
			l = append(l, gRefs(e.top, "")...)
			for _, s := range e.subs {
				l = append(l, gRefs(e.top, s)...)
			}
		}
	}
	return l
}

func (m *gModel) closure(roots []gRef) map[gRef]bool {
	seen := map[gRef]bool{}
	var walk func(r gRef)
	walk = func(r gRef) {
		if seen[r] {
			return
		}
		seen[r] = true
		for _, x := range m.refsOf(r) {
			walk(x)
		}
	}
	for _, r := range roots {
		walk(r)
	}
	return seen
}

// canonical, name-free description of an object and everything below it
func (m *gModel) expand(r gRef, depth int) string {
	if depth > 6 {
		return "<deep>"
	}
	if r.kind == "crypto map" {
		// entries by sequence number; the numbers themselves are not compared
		bySeq := map[string][]string{}
		for _, e := range m.entries {
			k, n := gKindName(e.top)
			if !(k == r.kind && n == r.name) {
				continue
			}
			w := strings.Fields(e.top)
			attr := strings.Join(w[4:], " ")
			for _, x := range gRefs(e.top, "") {
				attr = strings.Replace(attr, x.name, "("+m.expand(x, depth+1)+")", 1)
			}
			bySeq[w[3]] = append(bySeq[w[3]], attr)
		}
		var groups []string
		for _, l := range bySeq {
			sort.Strings(l)
			groups = append(groups, "["+strings.Join(l, ";")+"]")
		}
		sort.Strings(groups)
		return strings.Join(groups, "|")
	}
	var lines []string
	for _, e := range m.entries {
		k, n := gKindName(e.top)
		if !(k == r.kind && n == r.name) {
			continue
		}
		top := e.top
		if !gIsAnchor(k, n) || k == "tunnel-group" {
			top = strings.Replace(top, " "+n+" ", " NAME ", 1)
			if strings.HasSuffix(top, " "+n) {
				top = strings.TrimSuffix(top, n) + "NAME"
			}
		}
		for _, x := range gRefs(e.top, "") {
			top = strings.Replace(top, x.name, "("+m.expand(x, depth+1)+")", 1)
		}
		if k == "access-list" {
			// order of ACL lines matters
			lines = append(lines, top)
			continue
		}
		var subs []string
		for _, s := range e.subs {
			t := s
			for _, x := range gRefs(e.top, s) {
				t = strings.Replace(t, x.name, "("+m.expand(x, depth+1)+")", 1)
			}
			subs = append(subs, t)
		}
		sort.Strings(subs)
		lines = append(lines, top+"{"+strings.Join(subs, ";")+"}")
	}
	if r.kind != "access-list" {
		sort.Strings(lines)
	}
	return strings.Join(lines, "|")
}

func (m *gModel) anchors(known map[string]bool) []string {
	var l []string
	for _, r := range m.objects() {
		if ifc := m.interfaceOf(r); ifc != "" && !known[ifc] {
			continue
		}
		if gIsAnchor(r.kind, r.name) {
			l = append(l, m.expand(r, 0))
		}
	}
	sort.Strings(l)
	return l
}

// ---------------------------------------------------------------------------

func gACL(name string, variant int) string {
	lines := []string{
		"access-list " + name + " extended permit ip 10.3.4.8 255.255.255.248 any4\n",
		"access-list " + name + " extended permit tcp 10.3.4.8 255.255.255.248 any4 eq 80\n",
		"access-list " + name + " extended deny ip any4 any4\n",
	}
	switch variant {
	case 0:
		return lines[0] + lines[2]
	case 1:
		return lines[0] + lines[1] + lines[2]
	}
	return lines[1] + lines[2]
}

func gPool(name string, variant int) string {
	if variant == 0 {
		return "ip local pool " + name + " 10.3.4.8-10.3.4.15 mask 255.255.255.248\n"
	}
	return "ip local pool " + name + " 10.3.4.16-10.3.4.23 mask 255.255.255.248\n"
}

// a group-policy with its ACL and pool; returns the text and the names of
// the ACL and pool it defines
func gPolicy(t, name, acl, pool string, aclVariants, poolVariants int, banners []string) (string, []string, []string) {
	var b strings.Builder
	var acls, pools []string
	hasFilter := vf.Bool(t + ".hasFilter")
	hasPool := vf.Bool(t + ".hasPool")
	if hasFilter {
		v := 0
		if aclVariants > 1 {
			v = vf.FixInt(vf.Int(t+".aclVariant", 0, aclVariants-1))
		}
		b.WriteString(gACL(acl, v))
		acls = append(acls, acl)
	}
	if hasPool {
		v := 0
		if poolVariants > 1 {
			v = vf.FixInt(vf.Int(t+".poolVariant", 0, poolVariants-1))
		}
		b.WriteString(gPool(pool, v))
		pools = append(pools, pool)
	}
	b.WriteString("group-policy " + name + " internal\n")
	b.WriteString("group-policy " + name + " attributes\n")
	if hasPool {
		b.WriteString(" address-pools value " + pool + "\n")
	}
	banner := banners[0]
	if len(banners) > 1 {
		banner = vf.FixString(vf.Pick(t+".banner", banners))
	}
	b.WriteString(" banner value " + banner + "\n")
	if hasFilter {
		b.WriteString(" vpn-filter value " + acl + "\n")
	}
	return b.String(), acls, pools
}

func gUser(name, policy string) string {
	return "username " + name + " nopassword\nusername " + name + " attributes\n vpn-group-policy " + policy + "\n"
}

const gBase = `interface Ethernet0/0
 nameif inside
access-list inside_in extended permit ip 10.1.1.0 255.255.255.0 any4
access-list inside_in extended deny ip any4 any4
access-group inside_in in interface inside
`

// crypto map with up to two entries
func gCryptoSide(b *strings.Builder, t, sfx string, seqs []string) {
	n := vf.FixInt(vf.Int(t+".entries", 0, 2))
	if n == 0 {
		return
	}
	// transform-set definitions
	t1 := vf.FixString(vf.Pick(t+".trans1", []string{"esp-3des esp-md5-hmac", "esp-aes-256 esp-sha-hmac"}))
	b.WriteString("crypto ipsec ikev1 transform-set Trans1" + sfx + " " + t1 + "\n")
	b.WriteString("crypto ipsec ikev1 transform-set Trans2" + sfx + " esp-aes-192 esp-sha-hmac\n")
	peers := []string{"10.0.0.1", "10.0.0.2", "10.0.0.3"}
	prev := -1
	for i := 0; i < n; i++ {
		ti := t + ".e" + strconv.Itoa(i)
		p := vf.FixInt(vf.Int(ti+".peer", 0, 2))
		vf.Assume(p > prev) // one entry per peer
		prev = p
		seq := seqs[i]
		acl := "crypto-outside-" + seq + sfx
		b.WriteString("access-list " + acl + " extended permit ip any4 10.0." + strconv.Itoa(p+1) + ".0 255.255.255.0\n")
		b.WriteString("crypto map crypto-outside " + seq + " match address " + acl + "\n")
		b.WriteString("crypto map crypto-outside " + seq + " set peer " + peers[p] + "\n")
		sets := "Trans1" + sfx
		if vf.Bool(ti + ".twoSets") {
			sets += " Trans2" + sfx
			vf.Cover("crypto map entry with two transform-sets")
		}
		b.WriteString("crypto map crypto-outside " + seq + " set ikev1 transform-set " + sets + "\n")
		if vf.Bool(ti + ".pfs") {
			b.WriteString("crypto map crypto-outside " + seq + " set pfs group19\n")
		}
	}
	b.WriteString("crypto map crypto-outside interface outside\n")
	vf.Cover("crypto map on " + map[string]string{"a": "device", "b": "target"}[t])
}

func VerifASAGraph() {
	vf.Assumption("ASA object graph: device and target are assembled from blocks (one VPN user with group-policy, vpn-filter ACL of 2..3 lines, address pool; a left-over generated group-policy with ACL and pool; manually created ldap attribute-map + aaa-server, group-policy and tunnel-group that reference generated or manual objects); each path is one concrete pair, the solver chooses the block combination")
	vf.Assumption("ASA model (text level): a command may only refer to existing objects, an object that is still referenced cannot be deleted, attributes need their parent object, sub-commands need the sub-mode of their parent, access-list lines are addressed by position, single-valued attributes are replaced")
	var a, b strings.Builder
	a.WriteString(gBase)
	b.WriteString(gBase)
	full := vf.Param("full", "0") == "1"
	part := vf.Param("part", "vpn")
	var gps, acls, pools []string
	if part == "dmz" {
		// an interface Netspoc does not know, shut down or not, with ACLs
		// bound to it (names with or without the generated-name tag)
		vf.Assumption("part dmz: device has an interface unknown to Netspoc (shutdown or not) with an inbound and optionally an outbound access-group; ACL names with or without -DRC-; one ACL line may use a manually created object-group")
		name := vf.FixString(vf.Pick("a.dmz.aclName", []string{"dmz_in", "dmz_in-DRC-0"}))
		a.WriteString("interface Ethernet0/1\n nameif dmz\n")
		if vf.Bool("a.dmz.shutdown") {
			a.WriteString(" shutdown\n")
			vf.Cover("unknown interface is shut down")
		}
		if vf.Bool("a.dmz.group") {
			a.WriteString("object-group network dmz-servers\n network-object host 10.5.5.5\n")
			a.WriteString("access-list " + name + " extended permit ip object-group dmz-servers any4\n")
		} else {
			a.WriteString("access-list " + name + " extended permit ip 10.5.5.0 255.255.255.0 any4\n")
		}
		a.WriteString("access-list " + name + " extended deny ip any4 any4\n")
		a.WriteString("access-group " + name + " in interface dmz\n")
		if vf.Bool("a.dmz.out") {
			a.WriteString("access-list dmz_out extended permit ip any4 10.5.5.0 255.255.255.0\naccess-list dmz_out extended deny ip any4 any4\n")
			a.WriteString("access-group dmz_out out interface dmz\n")
			vf.Cover("unknown interface with in and out access-group")
		}
		vf.Cover("interface unknown to Netspoc on device")
	}
	if part == "cert" {
		vf.Assumption("part cert: certificate map + tunnel-group (type, general-, ipsec-attributes with trust-point) bound by tunnel-group-map; target changes subject-name and/or trust-point")
		if vf.Bool("a.cert") {
			a.WriteString("crypto ca certificate map ca-map-DRC-0 10\n subject-name attr ea co @sub.example.com\n")
			a.WriteString("tunnel-group VPN-tunnel-DRC-0 type remote-access\ntunnel-group VPN-tunnel-DRC-0 general-attributes\ntunnel-group VPN-tunnel-DRC-0 ipsec-attributes\n trust-point TP1\n")
			a.WriteString("tunnel-group-map ca-map-DRC-0 10 VPN-tunnel-DRC-0\n")
			vf.Cover("certificate map binding on device")
		}
		if vf.Bool("b.cert") {
			sub := vf.FixString(vf.Pick("b.cert.subject", []string{"@sub.example.com", "@other.example.com"}))
			tp := vf.FixString(vf.Pick("b.cert.trustpoint", []string{"TP1", "TP2"}))
			b.WriteString("crypto ca certificate map ca-map 10\n subject-name attr ea co " + sub + "\n")
			b.WriteString("tunnel-group VPN-tunnel type remote-access\ntunnel-group VPN-tunnel general-attributes\ntunnel-group VPN-tunnel ipsec-attributes\n trust-point " + tp + "\n")
			b.WriteString("tunnel-group-map ca-map 10 VPN-tunnel\n")
			vf.Cover("certificate map binding in target")
		}
	}
	if part == "crypto" {
		vf.Assumption("part crypto: crypto map bound to interface outside with 0..2 entries per side (peers of 3, match address ACL, transform-set list of 1..2 sets, optional pfs); transform-set definitions of the target may differ from the device's; model: single-valued attributes are replaced, 'set peer' adds, 'no' needs the exact line, referenced ACLs / transform-sets must exist and cannot be deleted while referenced")
		outside := "interface Ethernet0/1\n nameif outside\n"
		a.WriteString(outside)
		b.WriteString(outside)
		gCryptoSide(&a, "a", "-DRC-0", []string{"1", "3"})
		gCryptoSide(&b, "b", "", []string{"1", "2"})
	}
	// device: managed user chain
	if part != "crypto" && vf.Bool("a.user") {
		t, al, pl := gPolicy("a.g1", "VPN-group-G1-DRC-0", "vpn-filter-G1-DRC-0", "pool-G1-DRC-0", 2, 1, []string{"Welcome"})
		a.WriteString(t)
		a.WriteString(gUser("u1@example.com", "VPN-group-G1-DRC-0"))
		gps, acls, pools = append(gps, "VPN-group-G1-DRC-0"), append(acls, al...), append(pools, pl...)
		vf.Cover("managed VPN user on device")
	}
	// device: left-over generated chain (not referenced by any anchor)
	if part == "vpn" && vf.Bool("a.leftover") {
		t, al, pl := gPolicy("a.g2", "VPN-group-G2-DRC-0", "vpn-filter-G2-DRC-0", "pool-G2-DRC-0", 1, 1, []string{"Welcome"})
		a.WriteString(t)
		gps, acls, pools = append(gps, "VPN-group-G2-DRC-0"), append(acls, al...), append(pools, pl...)
		vf.Cover("left-over generated group-policy on device")
	}
	// device: manually created objects that may refer to generated ones
	if part == "vpn" && vf.Bool("a.manualGP") {
		a.WriteString(gACL("manual-filter", 0))
		filter := vf.FixString(vf.Pick("a.manualGP.filter", append([]string{"manual-filter"}, acls...)))
		a.WriteString("group-policy MANUALGP internal\ngroup-policy MANUALGP attributes\n banner value manual\n vpn-filter value " + filter + "\n")
		if len(pools) > 0 && vf.Bool("a.manualGP.pool") {
			a.WriteString(" address-pools value " + vf.FixString(vf.Pick("a.manualGP.poolName", pools)) + "\n")
		}
		gps = append(gps, "MANUALGP")
		vf.Cover("unmanaged group-policy on device")
	}
	if part == "vpn" && len(gps) > 0 && vf.Bool("a.ldap") {
		gp := vf.FixString(vf.Pick("a.ldap.policy", gps))
		a.WriteString("aaa-server LDAP_KV protocol ldap\naaa-server LDAP_KV (inside) host 10.2.8.16\n ldap-base-dn DC=example,DC=com\n ldap-attribute-map LDAPMAP\n")
		a.WriteString("ldap attribute-map LDAPMAP\n map-name memberOf Group-Policy\n map-value memberOf CN=g-m1,OU=VPN,DC=example,DC=com " + gp + "\n")
		vf.Cover("unmanaged ldap attribute-map on device")
	}
	if part == "vpn" && len(gps) > 0 && vf.Bool("a.manualTG") {
		gp := vf.FixString(vf.Pick("a.manualTG.policy", gps))
		a.WriteString("tunnel-group MANUAL-TG type remote-access\ntunnel-group MANUAL-TG general-attributes\n default-group-policy " + gp + "\n")
		vf.Cover("unmanaged tunnel-group on device")
	}
	// target
	if part != "crypto" && vf.Bool("b.user") {
		banners := []string{"Welcome"}
		if full {
			banners = append(banners, "Willkommen")
		}
		t, _, _ := gPolicy("b.g1", "VPN-group-G1", "vpn-filter-G1", "pool-G1", 3, 2, banners)
		b.WriteString(t)
		b.WriteString(gUser("u1@example.com", "VPN-group-G1"))
		vf.Cover("VPN user in target")
	}
	devText := a.String()
	spocText := b.String()
	dev := gParse(devText)
	// the device configuration must be consistent
	for _, r := range dev.objects() {
		for _, x := range dev.refsOf(r) {
			vf.Assume(dev.exists(x))
		}
	}
	tgt := gParse(spocText)
	vf.Note("DEVICE:\n"+devText, "TARGET:\n"+spocText)

	s := Setup()
	c1, err := s.ParseConfig([]byte(devText), "<device>")
	if err != nil {
		vf.Assert(false, "C20: device configuration rejected: "+err.Error())
		return
	}
	c2, err := s.ParseConfig([]byte(spocText), "router")
	if err != nil {
		vf.Assert(false, "C20: target configuration rejected: "+err.Error())
		return
	}
	if err := s.GetChanges(c1, c2); err != nil {
		vf.Assert(false, "C01: GetChanges failed on accepted input: "+err.Error())
		return
	}
	// out-of-scope objects: not reachable from an anchor, name without the
	// generated-name tag, and everything they reference
	var anchorRoots, unmanagedRoots []gRef
	known := tgt.nameifs()
	for _, r := range dev.objects() {
		if gIsAnchor(r.kind, r.name) {
			if ifc := dev.interfaceOf(r); ifc != "" && !known[ifc] {
				// interface unknown to Netspoc and what is bound to it
				unmanagedRoots = append(unmanagedRoots, r)
			} else {
				anchorRoots = append(anchorRoots, r)
			}
		}
	}
	managed := dev.closure(anchorRoots)
	for _, r := range dev.objects() {
		if !managed[r] && !strings.Contains(r.name, "-DRC-") {
			unmanagedRoots = append(unmanagedRoots, r)
		}
	}
	protected := dev.closure(unmanagedRoots)
	before := map[gRef]string{}
	dev.outside = map[gRef]bool{}
	for r := range protected {
		before[r] = dev.objText(r)
		if !managed[r] {
			dev.outside[r] = true
		}
	}
	if len(s.Changes) == 0 {
		vf.Cover("no change reported")
	} else {
		vf.Cover("changes emitted")
	}
	for _, chg := range s.Changes {
		for _, c := range strings.Split(chg, "\n") {
			vf.Note("CHG:", c)
			dev.exec(c)
		}
	}
	for _, r := range sortedRefs(protected) {
		// Objects that are also reachable from a managed anchor may be
		// edited (and deleted once nothing refers to them: the model
		// rejects the deletion of a referenced object, C08).
		if !managed[r] {
			vf.Cover("protected object checked")
			vf.Assert(dev.exists(r), "C07: ASA: object outside Netspoc's scope was deleted ("+r.kind+")")
			vf.Assert(dev.objText(r) == before[r], "C07: ASA: object outside Netspoc's scope was changed ("+r.kind+")")
		}
	}
	// converge: anchors of device and target agree up to names
	da, ta := dev.anchors(known), tgt.anchors(known)
	vf.Note("ANCHORS device:", strings.Join(da, " ## "), "target:", strings.Join(ta, " ## "))
	vf.Assert(strings.Join(da, "\n") == strings.Join(ta, "\n"), "C01: ASA: VPN objects after executing the script differ from the target")
	// second compare on the resulting device
	s2 := Setup()
	d2, err := s2.ParseConfig([]byte(dev.text()), "<device>")
	if err != nil {
		vf.Assert(false, "C01: resulting device configuration rejected by the parser: "+err.Error())
		return
	}
	t2, _ := s2.ParseConfig([]byte(spocText), "router")
	if err := s2.GetChanges(d2, t2); err != nil {
		vf.Assert(false, "C01: second GetChanges failed: "+err.Error())
		return
	}
	for _, c := range s2.Changes {
		vf.Note("CHG2:", c)
	}
	vf.Assert(len(s2.Changes) == 0, "C01: ASA: second compare still reports changes (VPN objects)")
}

// logical interfaces Netspoc knows: those named by the access-group and
// crypto map interface commands of the target (Netspoc's ASA code has no
// interface definitions)
func (m *gModel) nameifs() map[string]bool {
	r := map[string]bool{}
	for _, e := range m.entries {
		w := strings.Fields(e.top)
		if len(w) == 5 && w[0] == "access-group" && w[3] == "interface" {
			r[w[4]] = true
		}
		if len(w) == 5 && w[0] == "crypto" && w[1] == "map" && w[3] == "interface" {
			r[w[4]] = true
		}
	}
	return r
}

// logical interface an anchor belongs to ("" if none)
func (m *gModel) interfaceOf(r gRef) string {
	switch r.kind {
	case "access-group":
		w := strings.Fields(r.name)
		if len(w) == 5 && w[3] == "interface" {
			return w[4]
		}
	case "crypto map interface":
		return strings.Fields(r.name)[4]
	case "interface":
		for _, e := range m.entries {
			if e.top == r.name {
				for _, s := range e.subs {
					if w := strings.Fields(s); len(w) == 2 && w[0] == "nameif" {
						return w[1]
					}
				}
			}
		}
	}
	return ""
}

func sortedRefs(m map[gRef]bool) []gRef {
	var l []gRef
	for r := range m {
		l = append(l, r)
	}
	sort.Slice(l, func(i, j int) bool {
		if l[i].kind != l[j].kind {
			return l[i].kind < l[j].kind
		}
		return l[i].name < l[j].name
	})
	return l
}
