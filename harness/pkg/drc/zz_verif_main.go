package drc

import "github.com/hknutzen/Netspoc-Approve/go/pkg/vf"

// VerifMain runs the real drc.Main with the os.Args given to the executor.
func VerifMain() {
	rc := Main()
	vf.Note("exit=", rc)
}
