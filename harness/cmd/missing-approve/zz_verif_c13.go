package main

// C13 harness: bounded histories over the status files, checked against a
// ghost "latest conclusive observation".

import (
	"fmt"
	"os"
	"path"
	"strconv"
	"strings"
	"time"

	"github.com/hknutzen/Netspoc-Approve/go/pkg/program"
	"github.com/hknutzen/Netspoc-Approve/go/pkg/status"
	"github.com/hknutzen/Netspoc-Approve/go/pkg/vf"
)

// code identities: equal length so that byte comparison stays table-wise
var verifCodes = []string{"code-A\n", "code-B\n", "code-C\n"}

type verifPolicy struct {
	name    string
	v4      string // content of code/<dev>
	has6    bool
	v6      string // content of code/ipv6/<dev>
	hasRaw  bool
	raw     string
	onDisk  bool
	bzipped bool
}

var verifNow int64

func verifSetClock(t int64) {
	verifNow = t
	if !vf.Symbolic() {
		os.Setenv("TEST_TIME", time.Unix(t, 0).UTC().Format("2006-Jan-02 15:04:05"))
	}
}

func verifTick(step int) {
	t := vf.Int64("t" + strconv.Itoa(step))
	vf.Assume(t > verifNow && t < 4000000000)
	verifSetClock(t)
}

func verifWritePolicy(base string, dev string, p *verifPolicy) {
	dir := path.Join(base, "policies", p.name, "code")
	os.MkdirAll(dir, 0755)
	os.WriteFile(path.Join(dir, dev), []byte(p.v4), 0644)
	if p.has6 {
		os.MkdirAll(path.Join(dir, "ipv6"), 0755)
		os.WriteFile(path.Join(dir, "ipv6", dev), []byte(p.v6), 0644)
	}
	if p.hasRaw {
		os.WriteFile(path.Join(dir, dev+".raw"), []byte(p.raw), 0644)
	}
	p.onDisk = true
}

func verifPolicyFiles(base, dev string, p *verifPolicy) []string {
	dir := path.Join(base, "policies", p.name, "code")
	l := []string{path.Join(dir, dev)}
	if p.has6 {
		l = append(l, path.Join(dir, "ipv6", dev))
	}
	if p.hasRaw {
		l = append(l, path.Join(dir, dev+".raw"))
	}
	return l
}

// verifSameCode: ghost comparison "code of p for the device is identical to code of q".
func verifSameCode(p, q *verifPolicy) bool {
	r := p.v4 == q.v4
	r = vf.And(r, p.has6 == q.has6)
	if p.has6 && q.has6 {
		r = vf.And(r, p.v6 == q.v6)
	}
	r = vf.And(r, p.hasRaw == q.hasRaw)
	if p.hasRaw && q.hasRaw {
		r = vf.And(r, p.raw == q.raw)
	}
	return r
}

// VerifHistory explores all histories of K events.
func VerifHistory() {
	K, _ := strconv.Atoi(vf.Param("K", "3"))
	withParts := vf.Param("parts", "0") == "1"
	vf.Assumption("clock strictly increasing, 0 < t < 4e9 (seconds)")
	vf.Assumption("bzip2 round trip: a compressed policy file decompresses to its content")
	vf.Assumption("a damaged status file voids the omission clause until the next conclusive observation")
	base := vf.TempDir()
	defer os.RemoveAll(base)
	dev := "router"
	cfg := &program.Config{BaseDir: base}
	os.MkdirAll(path.Join(base, "policies"), 0755)
	os.MkdirAll(path.Join(base, "status"), 0755)
	if vf.Symbolic() {
		vf.Hook("now", func() int64 { return verifNow })
	}
	verifSetClock(1000)
	policiesDir := path.Join(base, "policies")

	newPolicy := func(n int, same bool, prev *verifPolicy) *verifPolicy {
		p := &verifPolicy{name: "p" + strconv.Itoa(n)}
		if same {
			p.v4, p.has6, p.v6, p.hasRaw, p.raw = prev.v4, prev.has6, prev.v6, prev.hasRaw, prev.raw
		} else {
			tag := "p" + strconv.Itoa(n)
			p.v4 = vf.Pick(tag+".v4", verifCodes)
			if withParts {
				p.has6 = vf.Bool(tag + ".has6")
				if p.has6 {
					p.v6 = vf.Pick(tag+".v6", verifCodes)
				}
				p.hasRaw = vf.Bool(tag + ".hasRaw")
				if p.hasRaw {
					p.raw = vf.Pick(tag+".raw", verifCodes)
				}
			}
		}
		verifWritePolicy(base, dev, p)
		return p
	}
	pols := []*verifPolicy{newPolicy(1, false, nil)}
	cur := pols[0]

	// Ghost state.  deviceCode: the policy whose code the device carries
	// (nil = something else, e.g. after manual change or initially).
	var deviceCode *verifPolicy
	var obs struct {
		valid    bool
		positive bool
		policy   *verifPolicy
		lost     bool
		// a failed approve happened after the observation
		failedSince bool
	}
	devEquals := func(p *verifPolicy) bool {
		if deviceCode == nil {
			return false
		}
		return verifSameCode(deviceCode, p)
	}

	for step := 0; step < K; step++ {
		verifTick(step)
		ev := vf.Int("ev"+strconv.Itoa(step), 0, 8)
		switch ev {
		case 0: // new policy, same code
			p := newPolicy(len(pols)+1, true, cur)
			pols = append(pols, p)
			cur = p
			vf.Cover("event: new policy same code")
		case 1: // new policy, different (or accidentally equal) code
			p := newPolicy(len(pols)+1, false, cur)
			pols = append(pols, p)
			cur = p
			vf.Cover("event: new policy other code")
		case 2: // approve OK
			status.SetApprove(cfg, dev, cur.name, false)
			deviceCode = cur
			obs.valid, obs.positive, obs.policy, obs.lost, obs.failedSince = true, true, cur, false, false
			vf.Cover("event: approve ok")
		case 3: // approve failed: device left as it was, not conclusive
			status.SetApprove(cfg, dev, cur.name, true)
			obs.failedSince = true
			vf.Cover("event: approve failed")
		case 4: // compare
			same := devEquals(cur)
			if same {
				status.SetCompare(cfg, dev, cur.name, false)
				obs.valid, obs.positive, obs.policy, obs.lost, obs.failedSince = true, true, cur, false, false
				vf.Cover("event: compare uptodate")
			} else {
				status.SetCompare(cfg, dev, cur.name, true)
				obs.valid, obs.positive, obs.policy, obs.lost, obs.failedSince = true, false, cur, false, false
				vf.Cover("event: compare diff")
			}
		case 5: // manual change on the device
			deviceCode = nil
			vf.Cover("event: manual drift")
		case 6: // bzip2 an old policy
			done := false
			for _, p := range pols {
				if p != cur && p.onDisk && !p.bzipped {
					for _, f := range verifPolicyFiles(base, dev, p) {
						vf.Bzip2(f)
					}
					p.bzipped = true
					done = true
					break
				}
			}
			vf.Assume(done)
			vf.Cover("event: bzip2 old policy")
		case 7: // remove an old policy
			done := false
			for _, p := range pols {
				if p != cur && p.onDisk {
					os.RemoveAll(path.Join(policiesDir, p.name))
					p.onDisk = false
					done = true
					break
				}
			}
			vf.Assume(done)
			vf.Cover("event: remove old policy")
		case 8: // status file damaged
			f := path.Join(base, "status", dev)
			kind := vf.Int("damage"+strconv.Itoa(step), 0, 2)
			switch kind {
			case 0:
				os.WriteFile(f, []byte(""), 0644)
			case 1:
				os.WriteFile(f, []byte(`{"approve":{"result":"OK","pol`), 0644)
			case 2:
				os.WriteFile(f, []byte("\x00\x01garbage"), 0644)
			}
			obs.lost = true
			vf.Cover("event: status damaged")
		}

		// Observation after every event.
		out := vf.CaptureStdout(func() { check(cfg, dev, policiesDir, cur.name) })
		listed := strings.Contains(out, dev)
		establishes := false
		if obs.valid && obs.positive {
			establishes = verifSameCode(obs.policy, cur)
		}
		vf.Assert(vf.Or(listed, establishes),
			"C13: device needs approve but is not listed")
		if obs.valid && obs.positive && obs.policy.onDisk && !obs.lost {
			if listed {
				vf.Cover("listed although observation positive")
			}
			why := " [no failed approve since the observation]"
			if obs.failedSince {
				why = " [a failed approve followed the observation]"
			}
			vf.Assert(vf.Or(!listed, !establishes),
				"C13: device listed although latest conclusive observation establishes current code"+why)
		}
	}
	_ = fmt.Sprint
}
