package main

// C20 for the status file: basedir/status/<device> is replaced by a
// solver-chosen damaged variant; missing-approve's check and the status
// updates of do-approve must neither panic nor hang.

import (
	"os"
	"path"

	"github.com/hknutzen/Netspoc-Approve/go/pkg/program"
	"github.com/hknutzen/Netspoc-Approve/go/pkg/status"
	"github.com/hknutzen/Netspoc-Approve/go/pkg/vf"
)

var verifStatusVariants = []string{
	`{"approve":{"result":"OK","policy":"p1","time":1700000000},"compare":{"result":"UPTODATE","policy":"p1","time":1700000001}}`,
	``,
	`NO_JSON`,
	`{`,
	`{"approve":{"result":"OK","pol`,
	`{"approve":5}`,
	`{"approve":"OK"}`,
	`{"approve":{"result":5,"policy":7,"time":"yesterday"}}`,
	`{"approve":{"result":"OK","policy":"p1","time":-1}}`,
	`{"approve":{"result":"OK","policy":"p1","time":99999999999999999999}}`,
	`{"approve":null,"compare":null}`,
	`null`,
	`[]`,
	`[{"approve":{}}]`,
	`{"approve":{"result":"OK","policy":"../../etc","time":1700000000}}`,
	`{"approve":{"result":"OK","policy":"","time":1700000000}}`,
	`{"approve":{"result":"OK","policy":"p9","time":1700000000}}`,
	`{"compare":{"result":"DIFF","policy":"p1","time":1700000000},"compare":{"result":"UPTODATE","policy":"p1","time":1}}`,
	"\x00\x01garbage",
}

func VerifGarbageStatus() {
	vf.Assumption("status file variants: valid, empty, not JSON, truncated, wrong JSON types for approve / result / policy / time, null, arrays, negative and overflowing time, policy names that do not exist or point outside, duplicate keys, binary garbage")
	base := vf.TempDir()
	defer os.RemoveAll(base)
	dev := "router"
	cfg := &program.Config{BaseDir: base}
	os.MkdirAll(path.Join(base, "status"), 0755)
	p1 := &verifPolicy{name: "p1", v4: "code A\n"}
	verifWritePolicy(base, dev, p1)
	if vf.Symbolic() {
		vf.Hook("now", func() int64 { return 1700000100 })
	}
	v := vf.FixInt(vf.Int("statusVariant", 0, len(verifStatusVariants)-1))
	os.WriteFile(path.Join(base, "status", dev), []byte(verifStatusVariants[v]), 0644)
	vf.Note("status:", verifStatusVariants[v])
	policiesDir := path.Join(base, "policies")
	switch vf.FixInt(vf.Int("operation", 0, 4)) {
	case 0:
		out := vf.CaptureStdout(func() { check(cfg, dev, policiesDir, "p1") })
		vf.Note("listing:", out)
		vf.Cover("missing-approve check on damaged status")
	case 1:
		status.SetCompare(cfg, dev, "p1", true)
	case 2:
		status.SetCompare(cfg, dev, "p1", false)
	case 3:
		status.SetApprove(cfg, dev, "p1", false)
	case 4:
		status.SetApprove(cfg, dev, "p1", true)
	}
	// afterwards the file is readable again and the listing works
	vf.CaptureStdout(func() { check(cfg, dev, policiesDir, "p1") })
	vf.Cover("status operation survived")
}
