#!/bin/bash
# Build the verification framework from files on disk only (offline).
set -e
export GOFLAGS=-mod=mod GOPROXY=off GOSUMDB=off GOTOOLCHAIN=local
cd /verif
mkdir -p bin evidence replays
(cd engine && go build -o /verif/bin/gosx ./cmd/gosx)
sed 's/^package vfsim/package main/' harness/pkg/vfsim/sim.go > tools/simdev/sim.go
(cd tools && cp /repo/go/go.sum go.sum && go build -o /verif/bin/dumpcases ./dumpcases && go build -o /verif/bin/simdev ./simdev)
echo "setup ok"
