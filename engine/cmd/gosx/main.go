// gosx: symbolic execution driver.
//
//	gosx -repo /repo/go -harness /verif/harness -entry pkgpath.Func [-workers N] [-out file.json]
//
// The SSA is rebuilt from the repository's current working tree on every
// run; harness files under -harness mirror the tree of -repo and are
// injected with the go/packages overlay.
package main

import (
	"encoding/json"
	"flag"
	"fmt"
	"os"
	"path/filepath"
	"runtime/debug"
	"runtime/pprof"
	"strings"
	"time"

	"gosx/interp"

	"golang.org/x/tools/go/packages"
	"golang.org/x/tools/go/ssa"
	"golang.org/x/tools/go/ssa/ssautil"
)

func main() {
	repo := flag.String("repo", "/repo/go", "module root of the code under test")
	harness := flag.String("harness", "/verif/harness", "overlay tree mirroring -repo")
	entry := flag.String("entry", "", "pkgpath.Func[,pkgpath.Func...]")
	workers := flag.Int("workers", 16, "parallel workers")
	out := flag.String("out", "", "result file (JSON)")
	maxPaths := flag.Int64("maxpaths", 200000, "path budget")
	maxSteps := flag.Int64("maxsteps", 20000000, "SSA instruction budget per path")
	timeout := flag.Int("solver-timeout", 10000, "per query, ms")
	solver := flag.String("solver", "z3 -in", "solver command")
	samples := flag.Int("samples", 5, "number of path samples to keep")
	verbose := flag.Bool("v", false, "print every path")
	stopFirst := flag.Bool("stop-on-first", false, "stop at first violation")
	classes := flag.String("classes", "", "comma separated property ids: check only assertions of these classes")
	mapOrder := flag.Int("maporder", 0, "map iteration schedule (0 insertion, 1 reversed, 2 rotated)")
	params := flag.String("params", "", "k=v,k=v harness parameters (verifParam)")
	replay := flag.String("replay", "", "JSON file with input values: run concretely")
	real := flag.String("real", "", "comma separated real directories readable through the virtual file system")
	argv := flag.String("args", "", "os.Args of the target (space separated)")
	batch := flag.String("batch", "", "JSON file: list of {Entry,Args,Params,Real}; concrete runs in parallel")
	keepOut := flag.Bool("keep-output", false, "store stdout/stderr of sampled paths")
	cpuprof := flag.String("cpuprofile", "", "write cpu profile")
	flag.Parse()
	debug.SetGCPercent(800)
	if *cpuprof != "" {
		f, _ := os.Create(*cpuprof)
		pprof.StartCPUProfile(f)
		defer pprof.StopCPUProfile()
	}
	if *entry == "" && *batch == "" {
		fmt.Fprintln(os.Stderr, "missing -entry")
		os.Exit(2)
	}
	t0 := time.Now()
	overlay := map[string][]byte{}
	if *harness != "" {
		filepath.Walk(*harness, func(p string, info os.FileInfo, err error) error {
			if err != nil || info.IsDir() || !strings.HasSuffix(p, ".go") {
				return nil
			}
			rel, _ := filepath.Rel(*harness, p)
			data, err := os.ReadFile(p)
			if err == nil {
				overlay[filepath.Join(*repo, rel)] = data
			}
			return nil
		})
	}
	type batchItem struct {
		Id     string
		Entry  string
		Args   []string
		Params map[string]string
		Real   []string
		Cwd    string
	}
	var items []batchItem
	if *batch != "" {
		data, err := os.ReadFile(*batch)
		if err != nil {
			fmt.Fprintln(os.Stderr, err)
			os.Exit(3)
		}
		if err := json.Unmarshal(data, &items); err != nil {
			fmt.Fprintln(os.Stderr, err)
			os.Exit(3)
		}
		seen := map[string]bool{}
		var l []string
		for _, it := range items {
			if !seen[it.Entry] {
				seen[it.Entry] = true
				l = append(l, it.Entry)
			}
		}
		*entry = strings.Join(l, ",")
	}
	entries := strings.Split(*entry, ",")
	pkgSet := map[string]bool{}
	var patterns []string
	for _, e := range entries {
		pp := e[:strings.LastIndex(e, ".")]
		if !pkgSet[pp] {
			pkgSet[pp] = true
			patterns = append(patterns, pp)
		}
	}
	cfg := &packages.Config{
		Mode:    packages.LoadAllSyntax,
		Dir:     *repo,
		Overlay: overlay,
		Env:     append(os.Environ(), "GOFLAGS=-mod=mod", "GOPROXY=off", "GOSUMDB=off", "GOTOOLCHAIN=local"),
	}
	initial, err := packages.Load(cfg, patterns...)
	if err != nil {
		fmt.Fprintln(os.Stderr, "load:", err)
		os.Exit(3)
	}
	if packages.PrintErrors(initial) > 0 {
		os.Exit(3)
	}
	prog, _ := ssautil.AllPackages(initial, ssa.InstantiateGenerics|ssa.SanityCheckFunctions&0)
	prog.Build()
	tLoad := time.Since(t0)
	interpreted := func(p string) bool {
		switch p {
		case "slices", "maps", "iter", "github.com/spf13/pflag":
			return true
		}
		return strings.HasPrefix(p, "github.com/hknutzen/Netspoc-Approve/go/") ||
			strings.HasPrefix(p, "github.com/pkg/diff/")
	}
	p := interp.NewProgram(prog, interpreted)
	opt := interp.Options{
		Workers: *workers, MaxPaths: *maxPaths, MaxSteps: *maxSteps, SolverTimeout: *timeout,
		SolverCmd: strings.Fields(*solver), Samples: *samples, Verbose: *verbose,
		StopOnFirst: *stopFirst, MapOrder: *mapOrder, Params: map[string]string{},
		Classes: splitNonEmpty(*classes),
	}
	opt.KeepOutput = *keepOut
	if *real != "" {
		opt.RealRoots = strings.Split(*real, ",")
	}
	if *argv != "" {
		opt.Args = strings.Fields(*argv)
	}
	if *batch != "" {
		type itemResult struct {
			Id     string
			Result *interp.Result
		}
		results := make([]itemResult, len(items))
		sem := make(chan int, *workers)
		done := make(chan int)
		for i := range items {
			go func(i int) {
				sem <- 1
				it := items[i]
				o := opt
				o.Workers = 1
				o.Samples = 1
				o.KeepOutput = true
				o.Args = it.Args
				o.Params = it.Params
				o.RealRoots = it.Real
				results[i] = itemResult{Id: it.Id, Result: interp.Explore(p, it.Entry, o)}
				<-sem
				done <- 1
			}(i)
		}
		for range items {
			<-done
		}
		data, _ := json.MarshalIndent(results, "", " ")
		if *out != "" {
			os.WriteFile(*out, data, 0644)
		}
		fmt.Printf("gosx batch: %d items, load=%.1fs wall=%.1fs\n", len(items), tLoad.Seconds(), time.Since(t0).Seconds())
		return
	}
	if *params != "" {
		for _, kv := range strings.Split(*params, ",") {
			if k, v, ok := strings.Cut(kv, "="); ok {
				opt.Params[k] = v
			}
		}
	}
	if *replay != "" {
		data, err := os.ReadFile(*replay)
		if err != nil {
			fmt.Fprintln(os.Stderr, err)
			os.Exit(3)
		}
		if err := json.Unmarshal(data, &opt.Replay); err != nil {
			fmt.Fprintln(os.Stderr, err)
			os.Exit(3)
		}
		if opt.Replay == nil {
			opt.Replay = []interp.Input{}
		}
		opt.Workers = 1
	}
	type entryResult struct {
		Entry  string
		LoadS  float64
		Result *interp.Result
	}
	var all []entryResult
	for _, e := range entries {
		res := interp.Explore(p, e, opt)
		all = append(all, entryResult{Entry: e, LoadS: tLoad.Seconds(), Result: res})
		st := res.Stats
		fmt.Printf("gosx %s: paths=%d completed=%d assume-ended=%d infeasible=%d unsupported=%d limit=%d panics=%d violations=%d forks=%d queries=%d solver=%.2fs (max %.0fms) steps=%d wall=%.1fs load=%.1fs\n",
			e, st.Paths, st.Completed, st.AssumeEnded, st.Infeasible, st.Unsupported, st.LimitHit, st.Panicked,
			len(res.Violations), st.Forks, st.SolverQueries, float64(st.SolverNs)/1e9, float64(st.SolverMaxNs)/1e6, st.Steps, res.WallS, tLoad.Seconds())
		for m, n := range res.Unsupported {
			fmt.Printf("  UNSUPPORTED x%d: %s\n", n, m)
		}
		for _, m := range res.Inconclusive {
			fmt.Printf("  INCONCLUSIVE: %s\n", m)
		}
		for _, v := range res.Violations {
			fmt.Printf("  FOUND %s %s | %s | %s\n", v.Kind, v.Label, v.Site, v.Message)
		}
	}
	if *out != "" {
		data, _ := json.MarshalIndent(all, "", " ")
		os.WriteFile(*out, data, 0644)
	}
}

func splitNonEmpty(s string) []string {
	var l []string
	for _, x := range strings.Split(s, ",") {
		if x != "" {
			l = append(l, x)
		}
	}
	return l
}
