package interp

// Symbolic values of gosx.
//
// Sym  : finite-domain symbolic scalar.  A total map from the assignments of
//        a few selector variables (SVar, each with domain [0,n)) to concrete
//        leaves.  Operations are applied leaf-wise with the concrete
//        implementation (so all of strings/regexp/strconv/... work on
//        symbolic strings without a string theory) and produce new tables.
//        A bool table is handed to the SMT solver as the disjunction of its
//        true rows.
// Term : SMT term of sort Bool or (_ BitVec w), for genuinely numeric
//        symbols (clock values).

import (
	"fmt"
	"go/token"
	"go/types"
	"sort"
	"strings"
)

const maxRows = 1 << 16

type SVar struct {
	id     int
	name   string
	n      int
	labels []string
	lo     int // for verifInt: value = lo + index
	kind   string
}

func (v *SVar) smt() string { return fmt.Sprintf("v%d", v.id) }

type Sym struct {
	vars   []*SVar // sorted by id
	leaves []value // row-major, last var fastest
}

func (s *Sym) String() string {
	var b strings.Builder
	b.WriteString("<sym")
	for _, v := range s.vars {
		fmt.Fprintf(&b, " %s", v.name)
	}
	b.WriteString(":")
	seen := map[string]bool{}
	n := 0
	for _, l := range s.leaves {
		t := toString(l)
		if !seen[t] {
			seen[t] = true
			if n < 6 {
				fmt.Fprintf(&b, " %q", t)
			}
			n++
		}
	}
	if n > 6 {
		fmt.Fprintf(&b, " …(%d)", n)
	}
	b.WriteString(">")
	return b.String()
}

type Term struct {
	s      string
	w      int // 0 = Bool
	signed bool
}

// ---------------------------------------------------------------------------

func rowsOf(vars []*SVar) int {
	t := 1
	for _, v := range vars {
		t *= v.n
		if t > maxRows {
			return -1
		}
	}
	return t
}

func decodeRow(vars []*SVar, idx int, asg []int) {
	for i := len(vars) - 1; i >= 0; i-- {
		asg[i] = idx % vars[i].n
		idx /= vars[i].n
	}
}

// at returns the leaf of s under assignment asg of the (super)set vars.
func (s *Sym) at(vars []*SVar, asg []int) value {
	idx := 0
	j := 0
	for _, sv := range s.vars {
		for vars[j] != sv {
			j++
		}
		idx = idx*sv.n + asg[j]
	}
	return s.leaves[idx]
}

func hasSym(v value) bool {
	switch v := v.(type) {
	case *Sym, *Term:
		return true
	case []value:
		for _, e := range v {
			if hasSym(e) {
				return true
			}
		}
	case structure:
		for _, e := range v {
			if hasSym(e) {
				return true
			}
		}
	case array:
		for _, e := range v {
			if hasSym(e) {
				return true
			}
		}
	case tuple:
		for _, e := range v {
			if hasSym(e) {
				return true
			}
		}
	case iface:
		return hasSym(v.v)
	}
	return false
}

func hasTerm(v value) bool {
	switch v := v.(type) {
	case *Term:
		return true
	case []value:
		for _, e := range v {
			if hasTerm(e) {
				return true
			}
		}
	case structure:
		for _, e := range v {
			if hasTerm(e) {
				return true
			}
		}
	case array:
		for _, e := range v {
			if hasTerm(e) {
				return true
			}
		}
	case tuple:
		for _, e := range v {
			if hasTerm(e) {
				return true
			}
		}
	case iface:
		return hasTerm(v.v)
	}
	return false
}

func collectVars(v value, set map[*SVar]bool) {
	switch v := v.(type) {
	case *Sym:
		for _, x := range v.vars {
			set[x] = true
		}
	case []value:
		for _, e := range v {
			collectVars(e, set)
		}
	case structure:
		for _, e := range v {
			collectVars(e, set)
		}
	case array:
		for _, e := range v {
			collectVars(e, set)
		}
	case tuple:
		for _, e := range v {
			collectVars(e, set)
		}
	case iface:
		collectVars(v.v, set)
	}
}

func sortedVars(set map[*SVar]bool) []*SVar {
	l := make([]*SVar, 0, len(set))
	for v := range set {
		l = append(l, v)
	}
	sort.Slice(l, func(i, j int) bool { return l[i].id < l[j].id })
	return l
}

// subst replaces every Sym inside v by its leaf under the assignment.
func subst(v value, vars []*SVar, asg []int) value {
	switch v := v.(type) {
	case *Sym:
		return v.at(vars, asg)
	case []value:
		if !hasSym(v) {
			return v
		}
		r := make([]value, len(v))
		for i, e := range v {
			r[i] = subst(e, vars, asg)
		}
		return r
	case structure:
		if !hasSym(v) {
			return v
		}
		r := make(structure, len(v))
		for i, e := range v {
			r[i] = subst(e, vars, asg)
		}
		return r
	case array:
		if !hasSym(v) {
			return v
		}
		r := make(array, len(v))
		for i, e := range v {
			r[i] = subst(e, vars, asg)
		}
		return r
	case tuple:
		if !hasSym(v) {
			return v
		}
		r := make(tuple, len(v))
		for i, e := range v {
			r[i] = subst(e, vars, asg)
		}
		return r
	case iface:
		if !hasSym(v.v) {
			return v
		}
		return iface{v.t, subst(v.v, vars, asg)}
	}
	return v
}

type rowPanic struct{ p interface{} }

// lift applies the concrete function f to args; if args contain finite-domain
// symbols, f is applied once per live joint assignment and the results are
// merged back into symbolic values.
func (fr *frame) lift(args []value, f func(args []value) value) value {
	set := map[*SVar]bool{}
	for _, a := range args {
		collectVars(a, set)
	}
	if len(set) == 0 {
		return f(args)
	}
	ctx := fr.i.ctx
	vars := sortedVars(set)
	total := rowsOf(vars)
	for total < 0 {
		// Table too large: concretise the variable with the largest domain.
		big := vars[0]
		for _, v := range vars {
			if v.n > big.n {
				big = v
			}
		}
		ctx.stats.Concretisations++
		fr.concretizeVar(big)
		// after the fork the var has one live value; substitute it
		args = fr.fixVar(args, big)
		set = map[*SVar]bool{}
		for _, a := range args {
			collectVars(a, set)
		}
		if len(set) == 0 {
			return f(args)
		}
		vars = sortedVars(set)
		total = rowsOf(vars)
	}
	res := make([]value, total)
	live := make([]bool, total)
	var poison []bool
	var firstPanic interface{}
	asg := make([]int, len(vars))
	cargs := make([]value, len(args))
	nlive := 0
	for idx := 0; idx < total; idx++ {
		decodeRow(vars, idx, asg)
		if !ctx.liveAsg(vars, asg) {
			continue
		}
		for i, a := range args {
			cargs[i] = subst(a, vars, asg)
		}
		r, p := safeApply(f, cargs)
		if p != nil {
			if poison == nil {
				poison = make([]bool, total)
				firstPanic = p
			}
			poison[idx] = true
			continue
		}
		res[idx] = r
		live[idx] = true
		nlive++
	}
	ctx.stats.LiftRows += int64(total)
	if poison != nil {
		leaves := make([]value, total)
		for i := range leaves {
			leaves[i] = poison[i]
		}
		cond := &Sym{vars: vars, leaves: leaves}
		if fr.branch(cond) {
			panic(firstPanic)
		}
	}
	if nlive == 0 {
		if poison != nil {
			panic(firstPanic)
		}
		panic(pathAbort{"infeasible", "no live row in lift"})
	}
	return fr.merge(vars, res, live)
}

func safeApply(f func([]value) value, args []value) (r value, p interface{}) {
	defer func() {
		if e := recover(); e != nil {
			if _, ok := e.(pathAbort); ok {
				panic(e)
			}
			p = e
		}
	}()
	return f(args), nil
}

func shapeKey(v value) string {
	switch v := v.(type) {
	case []value:
		if v == nil {
			return "snil"
		}
		return fmt.Sprintf("s%d", len(v))
	case iface:
		if v.t == nil {
			return "inil"
		}
		return "i:" + v.t.String()
	case tuple:
		return fmt.Sprintf("t%d", len(v))
	case structure:
		return fmt.Sprintf("S%d", len(v))
	case array:
		return fmt.Sprintf("a%d", len(v))
	case nil:
		return "nil"
	}
	return "x"
}

// merge builds one (possibly symbolic) value from per-row results.
// Rows with live[i]==false are don't-cares.
func (fr *frame) merge(vars []*SVar, res []value, live []bool) value {
	first := -1
	for i, l := range live {
		if l {
			first = i
			break
		}
	}
	if first < 0 {
		panic(pathAbort{"infeasible", "merge without live rows"})
	}
	proto := res[first]
	key := shapeKey(proto)
	if key != "x" {
		// check for differing shapes; fork on the class of proto
		differ := false
		for i, l := range live {
			if l && shapeKey(res[i]) != key {
				differ = true
				break
			}
		}
		if differ {
			leaves := make([]value, len(res))
			for i := range leaves {
				leaves[i] = live[i] && shapeKey(res[i]) == key
			}
			cond := &Sym{vars: vars, leaves: leaves}
			taken := fr.branch(cond)
			nl := make([]bool, len(live))
			for i := range live {
				nl[i] = live[i] && (leaves[i].(bool) == taken)
			}
			return fr.merge(vars, res, nl)
		}
	}
	col := func(j int, get func(v value) value) value {
		c := make([]value, len(res))
		for i, l := range live {
			if l {
				c[i] = get(res[i])
			}
		}
		return fr.merge(vars, c, live)
	}
	switch p := proto.(type) {
	case []value:
		if p == nil {
			return []value(nil)
		}
		out := make([]value, len(p))
		for j := range out {
			j := j
			out[j] = col(j, func(v value) value { return v.([]value)[j] })
		}
		return out
	case tuple:
		out := make(tuple, len(p))
		for j := range out {
			j := j
			out[j] = col(j, func(v value) value { return v.(tuple)[j] })
		}
		return out
	case structure:
		out := make(structure, len(p))
		for j := range out {
			j := j
			out[j] = col(j, func(v value) value { return v.(structure)[j] })
		}
		return out
	case array:
		out := make(array, len(p))
		for j := range out {
			j := j
			out[j] = col(j, func(v value) value { return v.(array)[j] })
		}
		return out
	case iface:
		if p.t == nil {
			return iface{}
		}
		return iface{p.t, col(0, func(v value) value { return v.(iface).v })}
	case nil:
		return nil
	}
	// scalar
	same := true
	for i, l := range live {
		if l && i != first && !safeEq(res[i], proto) {
			same = false
			break
		}
	}
	if same {
		return proto
	}
	leaves := make([]value, len(res))
	for i, l := range live {
		if l {
			leaves[i] = res[i]
		} else {
			leaves[i] = proto
		}
	}
	return simplifySym(&Sym{vars: vars, leaves: leaves}, live)
}

// simplifySym drops variables the table does not depend on.
func simplifySym(s *Sym, live []bool) value {
	for vi := 0; vi < len(s.vars); vi++ {
		if len(s.vars) == 1 {
			break
		}
		n := s.vars[vi].n
		stride := 1
		for _, v := range s.vars[vi+1:] {
			stride *= v.n
		}
		// independent of var vi, if for all rows leaf(row) == leaf(row with var vi = 0)
		indep := true
		total := len(s.leaves)
	outer:
		for base := 0; base < total; base += stride * n {
			for off := 0; off < stride; off++ {
				l0 := s.leaves[base+off]
				for k := 1; k < n; k++ {
					if !safeEq(s.leaves[base+off+k*stride], l0) {
						indep = false
						break outer
					}
				}
			}
		}
		if indep {
			nl := make([]value, 0, total/n)
			for base := 0; base < total; base += stride * n {
				nl = append(nl, s.leaves[base:base+stride]...)
			}
			nv := append(append([]*SVar{}, s.vars[:vi]...), s.vars[vi+1:]...)
			s = &Sym{vars: nv, leaves: nl}
			vi--
		}
	}
	return s
}

// symEquals compares two values that may contain symbols.
func symEquals(fr *frame, t types.Type, x, y value) value {
	if !hasSym(x) && !hasSym(y) {
		return equals(t, x, y)
	}
	if hasTerm(x) || hasTerm(y) {
		return termEquals(fr, t, x, y)
	}
	return fr.lift([]value{x, y}, func(a []value) value { return equals(t, a[0], a[1]) })
}

// ---------------------------------------------------------------------------
// concretisation

// distinctLive returns the distinct live leaf values of s in first-occurrence order.
func (fr *frame) distinctLive(s *Sym) []value {
	ctx := fr.i.ctx
	var out []value
	asg := make([]int, len(s.vars))
	for idx, l := range s.leaves {
		decodeRow(s.vars, idx, asg)
		if !ctx.liveAsg(s.vars, asg) {
			continue
		}
		dup := false
		for _, o := range out {
			if safeEq(o, l) {
				dup = true
				break
			}
		}
		if !dup {
			out = append(out, l)
		}
	}
	return out
}

// concretize forks over the feasible values of a symbolic scalar and
// returns the value chosen on this path.
func (fr *frame) concretize(v value) value {
	switch s := v.(type) {
	case *Sym:
		fr.i.ctx.stats.Concretisations++
		vals := fr.distinctLive(s)
		if len(vals) == 0 {
			panic(pathAbort{"infeasible", "concretize: no live value"})
		}
		for i, val := range vals {
			if i == len(vals)-1 {
				// all others excluded: still ask, the value may be infeasible too
				val := val
				cond := fr.lift([]value{s}, func(a []value) value { return safeEq(a[0], val) })
				if !fr.branch(cond) {
					panic(pathAbort{"infeasible", "concretize: exhausted"})
				}
				return val
			}
			val := val
			cond := fr.lift([]value{s}, func(a []value) value { return safeEq(a[0], val) })
			if fr.branch(cond) {
				return val
			}
		}
	case *Term:
		return fr.concretizeTerm(s)
	}
	return v
}

// concretizeVar forks over the live values of one selector variable.
func (fr *frame) concretizeVar(v *SVar) int {
	leaves := make([]value, v.n)
	for i := range leaves {
		leaves[i] = i
	}
	r := fr.concretize(&Sym{vars: []*SVar{v}, leaves: leaves})
	return r.(int)
}

// concretizeData forks over every selector variable that occurs in data
// (a byte slice or string with symbolic parts) and returns concrete data.
func (fr *frame) concretizeData(data value) value {
	for hasSym(data) {
		var v *SVar
		var find func(x value)
		find = func(x value) {
			if v != nil {
				return
			}
			switch x := x.(type) {
			case *Sym:
				v = x.vars[0]
			case []value:
				for _, e := range x {
					find(e)
				}
			case *Term:
				panic(pathAbort{"unsupported", "codec input depends on a bit-vector term"})
			}
		}
		find(data)
		if v == nil {
			panic(pathAbort{"unsupported", "codec input with symbolic structure"})
		}
		k := fr.concretizeVar(v)
		data = fixVarIn(data, v, k)
	}
	return data
}

// fixVar substitutes the single live value of v inside args.
func (fr *frame) fixVar(args []value, v *SVar) []value {
	ctx := fr.i.ctx
	val := -1
	for k := 0; k < v.n; k++ {
		if ctx.liveVal(v, k) {
			if val >= 0 {
				panic(pathAbort{"unsupported", "fixVar: variable not fixed"})
			}
			val = k
		}
	}
	out := make([]value, len(args))
	for i, a := range args {
		out[i] = fixVarIn(a, v, val)
	}
	return out
}

func fixVarIn(a value, v *SVar, val int) value {
	switch a := a.(type) {
	case *Sym:
		pos := -1
		for i, x := range a.vars {
			if x == v {
				pos = i
			}
		}
		if pos < 0 {
			return a
		}
		stride := 1
		for _, x := range a.vars[pos+1:] {
			stride *= x.n
		}
		var nl []value
		total := len(a.leaves)
		for base := 0; base < total; base += stride * v.n {
			nl = append(nl, a.leaves[base+val*stride:base+val*stride+stride]...)
		}
		nv := append(append([]*SVar{}, a.vars[:pos]...), a.vars[pos+1:]...)
		if len(nv) == 0 {
			return nl[0]
		}
		return &Sym{vars: nv, leaves: nl}
	case []value:
		if !hasSym(a) {
			return a
		}
		r := make([]value, len(a))
		for i, e := range a {
			r[i] = fixVarIn(e, v, val)
		}
		return r
	case structure:
		r := make(structure, len(a))
		for i, e := range a {
			r[i] = fixVarIn(e, v, val)
		}
		return r
	case array:
		r := make(array, len(a))
		for i, e := range a {
			r[i] = fixVarIn(e, v, val)
		}
		return r
	case tuple:
		r := make(tuple, len(a))
		for i, e := range a {
			r[i] = fixVarIn(e, v, val)
		}
		return r
	case iface:
		return iface{a.t, fixVarIn(a.v, v, val)}
	}
	return a
}

// concreteInt returns v as int64, forking if it is symbolic.
func (fr *frame) concreteInt(v value) int64 {
	switch v.(type) {
	case *Sym, *Term:
		v = fr.concretize(v)
	}
	return asInt64(v)
}

// ---------------------------------------------------------------------------
// Terms (bit-vectors)

func bvConst(x int64, w int) string {
	switch w {
	case 64:
		return fmt.Sprintf("#x%016x", uint64(x))
	case 32:
		return fmt.Sprintf("#x%08x", uint32(x))
	case 16:
		return fmt.Sprintf("#x%04x", uint16(x))
	case 8:
		return fmt.Sprintf("#x%02x", uint8(x))
	}
	panic("bvConst width")
}

func widthOf(v value) (int, bool) {
	switch v.(type) {
	case int, int64:
		return 64, true
	case uint, uint64, uintptr:
		return 64, false
	case int32:
		return 32, true
	case uint32:
		return 32, false
	case int16:
		return 16, true
	case uint16:
		return 16, false
	case int8:
		return 8, true
	case uint8:
		return 8, false
	}
	return 0, false
}

// toTerm converts a concrete number, bool or Sym into a Term.
func (fr *frame) toTerm(v value, like *Term) *Term {
	switch v := v.(type) {
	case *Term:
		return v
	case bool:
		if v {
			return &Term{s: "true"}
		}
		return &Term{s: "false"}
	case *Sym:
		if _, isBool := v.leaves[0].(bool); isBool {
			return &Term{s: fr.i.ctx.symBoolToSMT(v)}
		}
		// ite chain over rows
		ctx := fr.i.ctx
		asg := make([]int, len(v.vars))
		var out *Term
		for idx := len(v.leaves) - 1; idx >= 0; idx-- {
			decodeRow(v.vars, idx, asg)
			if !ctx.liveAsg(v.vars, asg) {
				continue
			}
			lt := fr.toTerm(v.leaves[idx], like)
			if out == nil {
				out = lt
				continue
			}
			var conj []string
			for i, x := range v.vars {
				conj = append(conj, fmt.Sprintf("(= %s #x%02x)", x.smt(), asg[i]))
			}
			c := conj[0]
			if len(conj) > 1 {
				c = "(and " + strings.Join(conj, " ") + ")"
			}
			out = &Term{s: fmt.Sprintf("(ite %s %s %s)", c, lt.s, out.s), w: lt.w, signed: lt.signed}
		}
		if out == nil {
			panic(pathAbort{"infeasible", "toTerm: no live row"})
		}
		return out
	}
	if w, signed := widthOf(v); w != 0 {
		var x int64
		if signed {
			x = asInt64(v)
		} else {
			x = int64(asUint64Any(v))
		}
		return &Term{s: bvConst(x, w), w: w, signed: signed}
	}
	panic(pathAbort{"unsupported", fmt.Sprintf("toTerm of %T", v)})
}

func asUint64Any(x value) uint64 {
	switch x := x.(type) {
	case uint:
		return uint64(x)
	case uint8:
		return uint64(x)
	case uint16:
		return uint64(x)
	case uint32:
		return uint64(x)
	case uint64:
		return x
	case uintptr:
		return uint64(x)
	}
	return uint64(asInt64(x))
}

func (fr *frame) termBinop(op token.Token, x, y value) value {
	var like *Term
	if t, ok := x.(*Term); ok {
		like = t
	} else {
		like = y.(*Term)
	}
	a := fr.toTerm(x, like)
	b := fr.toTerm(y, like)
	if a.w == 0 || b.w == 0 {
		switch op {
		case token.EQL:
			return &Term{s: fmt.Sprintf("(= %s %s)", a.s, b.s)}
		case token.NEQ:
			return &Term{s: fmt.Sprintf("(not (= %s %s))", a.s, b.s)}
		}
		panic(pathAbort{"unsupported", "bool term binop " + op.String()})
	}
	if a.w != b.w {
		panic(pathAbort{"unsupported", "term width mismatch"})
	}
	bv := func(name string) value {
		return &Term{s: fmt.Sprintf("(%s %s %s)", name, a.s, b.s), w: a.w, signed: a.signed}
	}
	cmp := func(s, u string) value {
		n := u
		if a.signed {
			n = s
		}
		return &Term{s: fmt.Sprintf("(%s %s %s)", n, a.s, b.s)}
	}
	switch op {
	case token.ADD:
		return bv("bvadd")
	case token.SUB:
		return bv("bvsub")
	case token.MUL:
		return bv("bvmul")
	case token.AND:
		return bv("bvand")
	case token.OR:
		return bv("bvor")
	case token.XOR:
		return bv("bvxor")
	case token.EQL:
		return &Term{s: fmt.Sprintf("(= %s %s)", a.s, b.s)}
	case token.NEQ:
		return &Term{s: fmt.Sprintf("(not (= %s %s))", a.s, b.s)}
	case token.LSS:
		return cmp("bvslt", "bvult")
	case token.LEQ:
		return cmp("bvsle", "bvule")
	case token.GTR:
		return cmp("bvsgt", "bvugt")
	case token.GEQ:
		return cmp("bvsge", "bvuge")
	}
	panic(pathAbort{"unsupported", "term binop " + op.String()})
}

// termEquals compares structured values containing Terms.
func termEquals(fr *frame, t types.Type, x, y value) value {
	switch x := x.(type) {
	case structure:
		y := y.(structure)
		var conj []string
		for i := range x {
			r := symEquals(fr, nil, x[i], y[i])
			if b, ok := r.(bool); ok {
				if !b {
					return false
				}
				continue
			}
			conj = append(conj, fr.toTerm(r, nil).s)
		}
		if len(conj) == 0 {
			return true
		}
		if len(conj) == 1 {
			return &Term{s: conj[0]}
		}
		return &Term{s: "(and " + strings.Join(conj, " ") + ")"}
	case iface:
		y := y.(iface)
		if !sameType(x.t, y.t) {
			return false
		}
		if x.t == nil {
			return true
		}
		return symEquals(fr, x.t, x.v, y.v)
	}
	return fr.termBinop(token.EQL, x, y)
}

func (fr *frame) concretizeTerm(t *Term) value {
	panic(pathAbort{"unsupported", "concretisation of a bit-vector term"})
}

// symBoolToSMT renders a bool table as an SMT formula (live rows only).
func (c *pathCtx) symBoolToSMT(s *Sym) string {
	asg := make([]int, len(s.vars))
	var tr, fa []string
	for idx, l := range s.leaves {
		decodeRow(s.vars, idx, asg)
		if !c.liveAsg(s.vars, asg) {
			continue
		}
		var conj []string
		for i, x := range s.vars {
			conj = append(conj, fmt.Sprintf("(= %s #x%02x)", x.smt(), asg[i]))
		}
		cube := conj[0]
		if len(conj) > 1 {
			cube = "(and " + strings.Join(conj, " ") + ")"
		}
		if l.(bool) {
			tr = append(tr, cube)
		} else {
			fa = append(fa, cube)
		}
	}
	if len(tr) == 0 {
		return "false"
	}
	if len(fa) == 0 {
		return "true"
	}
	if len(tr) <= len(fa) {
		if len(tr) == 1 {
			return tr[0]
		}
		return "(or " + strings.Join(tr, " ") + ")"
	}
	if len(fa) == 1 {
		return "(not " + fa[0] + ")"
	}
	return "(not (or " + strings.Join(fa, " ") + "))"
}
