package interp

// Native intrinsics for the standard library, lifted leaf-wise over
// finite-domain symbols, plus the verif* harness API.

import (
	"bytes"
	"errors"
	"fmt"
	"go/types"
	"net"
	"net/netip"
	"net/url"
	"path"
	"path/filepath"
	"regexp"
	"sort"
	"strconv"
	"strings"
	"time"
	"unicode"

	"golang.org/x/tools/go/ssa"
)

type intrinsic func(fr *frame, args []value) value

var intrinsics = map[string]intrinsic{}
var verifAPI = map[string]intrinsic{}

// std functions that may be interpreted from SSA although their package is native
var interpretedStdFuncs = map[string]bool{
	"errors.New":                  true,
	"(*errors.errorString).Error": true,
	"(*fmt.wrapError).Error":      true,
	"(*fmt.wrapError).Unwrap":     true,
	"cmp.Compare":                 true,
	"cmp.Less":                    true,
	"cmp.Or":                      true,
	"cmp.isNaN":                   true,
}

func pure(name string, f func(a []value) value) {
	intrinsics[name] = func(fr *frame, args []value) value { return fr.lift(args, f) }
}

// ---- marshalling helpers

func strsOf(v value) []string {
	l := v.([]value)
	if l == nil {
		return nil
	}
	r := make([]string, len(l))
	for i, e := range l {
		r[i] = e.(string)
	}
	return r
}

func strsVal(l []string) value {
	if l == nil {
		return []value(nil)
	}
	r := make([]value, len(l))
	for i, e := range l {
		r[i] = e
	}
	return r
}

func bytesOf(v value) []byte {
	l := v.([]value)
	if l == nil {
		return nil
	}
	r := make([]byte, len(l))
	for i, e := range l {
		r[i] = e.(uint8)
	}
	return r
}

func bytesVal(l []byte) value {
	if l == nil {
		return []value(nil)
	}
	r := make([]value, len(l))
	for i, e := range l {
		r[i] = e
	}
	return r
}

func intsVal(l []int) value {
	if l == nil {
		return []value(nil)
	}
	r := make([]value, len(l))
	for i, e := range l {
		r[i] = e
	}
	return r
}

func (p *Program) namedType(pkg, name string) types.Type {
	sp := p.Prog.ImportedPackage(pkg)
	if sp == nil {
		panic(pathAbort{"unsupported", "package not loaded: " + pkg})
	}
	m := sp.Type(name)
	if m == nil {
		panic(pathAbort{"unsupported", "type not found: " + pkg + "." + name})
	}
	return m.Type()
}

// mkErr builds an *errors.errorString with the (possibly symbolic) message.
func (fr *frame) mkErr(msg value) value {
	t := types.NewPointer(fr.i.p.namedType("errors", "errorString"))
	var cell value = structure{msg}
	return iface{t: t, v: &cell}
}

func (fr *frame) mkWrapErr(msg value, inner value) value {
	t := types.NewPointer(fr.i.p.namedType("fmt", "wrapError"))
	var cell value = structure{msg, inner}
	return iface{t: t, v: &cell}
}

// errVal converts a native error into a target error value.
func (fr *frame) errVal(err error) value {
	if err == nil {
		return iface{}
	}
	return fr.mkErr(err.Error())
}

// errorText calls Error() of a target error value.
func (fr *frame) errorText(e value) value {
	it := e.(iface)
	if it.t == nil {
		return "<nil>"
	}
	if m := fr.i.findMethod(it.t, "Error"); m != nil {
		return call(fr.i, fr, 0, m, []value{it.v})
	}
	if n, ok := it.v.(native); ok {
		if e, ok := n.v.(error); ok {
			return e.Error()
		}
	}
	panic(pathAbort{"unsupported", "Error() of " + it.t.String()})
}

// resolveFmtArg replaces values that have Error()/String() methods by their text.
func (fr *frame) resolveFmtArg(a value) value {
	it, ok := a.(iface)
	if !ok {
		return a
	}
	if it.t == nil {
		return native{nil}
	}
	if s, ok := it.v.(*Sym); ok {
		_ = s
		return it.v
	}
	if _, isBasic := it.t.Underlying().(*types.Basic); !isBasic || types.NewMethodSet(it.t).Len() > 0 {
		ms := fr.i.prog.MethodSets.MethodSet(it.t)
		for _, name := range []string{"Error", "String"} {
			if sel := ms.Lookup(nil, name); sel != nil {
				if sig, ok := sel.Type().(*types.Signature); ok && sig.Params().Len() == 0 && sig.Results().Len() == 1 {
					if m := fr.i.prog.MethodValue(sel); m != nil {
						if _, isIntr := intrinsics[fnKey(m)]; isIntr || fr.i.interpretedFn(m) {
							return call(fr.i, fr, 0, m, []value{it.v})
						}
					}
				}
			}
		}
	}
	return it.v
}

// toNative converts a concrete target value into a Go value for fmt.
func toNative(v value) interface{} {
	switch v := v.(type) {
	case native:
		return v.v
	case iface:
		if v.t == nil {
			return nil
		}
		return toNative(v.v)
	case []value:
		// []byte prints like a byte slice, others like a generic slice
		allBytes := len(v) > 0
		for _, e := range v {
			if _, ok := e.(uint8); !ok {
				allBytes = false
				break
			}
		}
		if allBytes {
			return bytesOf(v)
		}
		allStr := true
		for _, e := range v {
			if _, ok := e.(string); !ok {
				allStr = false
				break
			}
		}
		if allStr {
			return strsOf(v)
		}
		r := make([]interface{}, len(v))
		for i, e := range v {
			r[i] = toNative(e)
		}
		return r
	case structure:
		r := make([]interface{}, len(v))
		for i, e := range v {
			r[i] = toNative(e)
		}
		return r
	case *value:
		if v == nil {
			return nil
		}
		return fmt.Sprintf("%p", v)
	}
	return v
}

func (fr *frame) sprintf(format value, args value) value {
	l := args.([]value)
	rl := make([]value, len(l)+1)
	rl[0] = format
	for i, a := range l {
		rl[i+1] = fr.resolveFmtArg(a)
	}
	return fr.lift(rl, func(a []value) value {
		na := make([]interface{}, len(a)-1)
		for i, x := range a[1:] {
			na[i] = toNative(x)
		}
		return fmt.Sprintf(a[0].(string), na...)
	})
}

func (fr *frame) sprint(args value, ln bool) value {
	l := args.([]value)
	rl := make([]value, len(l))
	for i, a := range l {
		rl[i] = fr.resolveFmtArg(a)
	}
	return fr.lift(rl, func(a []value) value {
		na := make([]interface{}, len(a))
		for i, x := range a {
			na[i] = toNative(x)
		}
		if ln {
			return fmt.Sprintln(na...)
		}
		return fmt.Sprint(na...)
	})
}

// appendStr concatenates two possibly symbolic strings.
func (fr *frame) appendStr(a, b value) value {
	if a == nil {
		return b
	}
	return fr.lift([]value{a, b}, func(x []value) value { return x[0].(string) + x[1].(string) })
}

// fileOf extracts the *vfile from a *os.File value.
func fileOf(v value) *vfile {
	p, ok := v.(*value)
	if !ok || p == nil {
		return nil
	}
	n, ok := (*p).(native)
	if !ok {
		return nil
	}
	f, _ := n.v.(*vfile)
	return f
}

// writeTo writes a (possibly symbolic) string to an io.Writer value.
func (fr *frame) writeTo(w value, s value) {
	it, ok := w.(iface)
	if !ok {
		it = iface{t: nil, v: w}
	}
	if f := fileOf(it.v); f != nil {
		fr.fileWrite(f, s)
		return
	}
	if p, ok := it.v.(*value); ok && p != nil {
		if st, ok := (*p).(structure); ok && it.t != nil {
			switch it.t.String() {
			case "*strings.Builder":
				st[1] = fr.appendStr(builderString(st, 1), s)
				return
			case "*bytes.Buffer":
				st[0] = fr.appendStr(builderString(st, 0), s)
				return
			}
		}
	}
	// interpreted writer: call its Write method with bytes
	if it.t != nil {
		if m := fr.i.findMethod(it.t, "Write"); m != nil {
			call(fr.i, fr, 0, m, []value{it.v, fr.stringToBytes(s)})
			return
		}
	}
	panic(pathAbort{"unsupported", fmt.Sprintf("write to %v", it.t)})
}

func (fr *frame) fileWrite(f *vfile, s value) {
	e := fr.i.ctx.env
	if f.closed {
		return
	}
	switch f.std {
	case 1, 2:
		e.writeStd(f.std, s)
		return
	}
	f.node.chunks = append(f.node.chunks, s)
	e.events = append(e.events, sinkEvent{Kind: "write", Path: f.node.path, Data: s})
}

// builderString returns the content of a *strings.Builder / bytes.Buffer cell.
func builderString(st structure, i int) value {
	if st[i] == nil {
		return ""
	}
	if l, ok := st[i].([]value); ok {
		if l == nil {
			return ""
		}
		return string(bytesOf(l))
	}
	return st[i]
}

func (fr *frame) concreteString(v value) string {
	if s, ok := v.(*Sym); ok {
		v = fr.concretize(s)
	}
	return v.(string)
}

func nativeZero(n *types.Named) (value, bool) {
	if n.Obj().Pkg() == nil {
		return nil, false
	}
	switch n.Obj().Pkg().Path() + "." + n.Obj().Name() {
	case "net/netip.Addr":
		return native{netip.Addr{}}, true
	case "net/netip.Prefix":
		return native{netip.Prefix{}}, true
	case "time.Time":
		return native{vtime{int64(0)}}, true
	}
	return nil, false
}

// stdGlobal provides the cells of the few std globals the repo reads.
func (i *interpreter) stdGlobal(g *ssa.Global) value {
	e := i.ctx.env
	name := g.Pkg.Pkg.Path() + "." + g.Name()
	switch name {
	case "os.Stdout":
		return e.stdoutCell
	case "os.Stderr":
		return e.stderrCell
	case "os.Stdin":
		return e.stdinCell
	}
	if c, ok := e.globals[name]; ok {
		return c
	}
	var v value
	switch name {
	case "os.Args":
		v = strsVal(e.args)
	case "os.ErrNotExist", "io/fs.ErrNotExist":
		return i.sentinel("io/fs.ErrNotExist", "file does not exist")
	case "io.EOF":
		return i.sentinel("io.EOF", "EOF")
	case "github.com/spf13/pflag.ErrHelp":
		return i.sentinel(name, "pflag: help requested")
	default:
		panic(pathAbort{"unsupported", "std global " + name})
	}
	c := &v
	e.globals[name] = c
	return c
}

func (i *interpreter) sentinel(name, msg string) *value {
	e := i.ctx.env
	if c, ok := e.globals[name]; ok {
		return c
	}
	t := types.NewPointer(i.p.namedType("errors", "errorString"))
	var cell value = structure{msg}
	var v value = iface{t: t, v: &cell}
	e.globals[name] = &v
	return &v
}

func (fr *frame) sentinelErr(name, msg string) value {
	return *fr.i.sentinel(name, msg)
}

func b2v(b bool) value { return b }

func init() {
	// ---------------- strings
	pure("strings.Contains", func(a []value) value { return strings.Contains(a[0].(string), a[1].(string)) })
	pure("strings.ContainsAny", func(a []value) value { return strings.ContainsAny(a[0].(string), a[1].(string)) })
	pure("strings.ContainsRune", func(a []value) value { return strings.ContainsRune(a[0].(string), a[1].(int32)) })
	pure("strings.Count", func(a []value) value { return strings.Count(a[0].(string), a[1].(string)) })
	pure("strings.Cut", func(a []value) value {
		x, y, ok := strings.Cut(a[0].(string), a[1].(string))
		return tuple{x, y, ok}
	})
	pure("strings.CutPrefix", func(a []value) value {
		x, ok := strings.CutPrefix(a[0].(string), a[1].(string))
		return tuple{x, ok}
	})
	pure("strings.CutSuffix", func(a []value) value {
		x, ok := strings.CutSuffix(a[0].(string), a[1].(string))
		return tuple{x, ok}
	})
	pure("strings.EqualFold", func(a []value) value { return strings.EqualFold(a[0].(string), a[1].(string)) })
	pure("strings.Fields", func(a []value) value { return strsVal(strings.Fields(a[0].(string))) })
	pure("strings.HasPrefix", func(a []value) value { return strings.HasPrefix(a[0].(string), a[1].(string)) })
	pure("strings.HasSuffix", func(a []value) value { return strings.HasSuffix(a[0].(string), a[1].(string)) })
	pure("strings.Index", func(a []value) value { return strings.Index(a[0].(string), a[1].(string)) })
	pure("strings.IndexByte", func(a []value) value { return strings.IndexByte(a[0].(string), a[1].(uint8)) })
	pure("strings.IndexAny", func(a []value) value { return strings.IndexAny(a[0].(string), a[1].(string)) })
	pure("strings.LastIndex", func(a []value) value { return strings.LastIndex(a[0].(string), a[1].(string)) })
	pure("strings.Join", func(a []value) value { return strings.Join(strsOf(a[0]), a[1].(string)) })
	pure("strings.Repeat", func(a []value) value { return strings.Repeat(a[0].(string), a[1].(int)) })
	pure("strings.Replace", func(a []value) value {
		return strings.Replace(a[0].(string), a[1].(string), a[2].(string), a[3].(int))
	})
	pure("strings.ReplaceAll", func(a []value) value { return strings.ReplaceAll(a[0].(string), a[1].(string), a[2].(string)) })
	pure("strings.Split", func(a []value) value { return strsVal(strings.Split(a[0].(string), a[1].(string))) })
	pure("strings.SplitN", func(a []value) value { return strsVal(strings.SplitN(a[0].(string), a[1].(string), a[2].(int))) })
	pure("strings.ToLower", func(a []value) value { return strings.ToLower(a[0].(string)) })
	pure("strings.ToUpper", func(a []value) value { return strings.ToUpper(a[0].(string)) })
	pure("strings.Trim", func(a []value) value { return strings.Trim(a[0].(string), a[1].(string)) })
	pure("strings.TrimLeft", func(a []value) value { return strings.TrimLeft(a[0].(string), a[1].(string)) })
	pure("strings.TrimRight", func(a []value) value { return strings.TrimRight(a[0].(string), a[1].(string)) })
	pure("strings.TrimSpace", func(a []value) value { return strings.TrimSpace(a[0].(string)) })
	pure("strings.TrimPrefix", func(a []value) value { return strings.TrimPrefix(a[0].(string), a[1].(string)) })
	pure("strings.TrimSuffix", func(a []value) value { return strings.TrimSuffix(a[0].(string), a[1].(string)) })
	// functions taking a func(rune) bool: the repo only passes unicode.IsSpace-like
	// closures; they are called back in the interpreter on concrete runes.
	intrinsics["strings.TrimRightFunc"] = func(fr *frame, args []value) value {
		f := args[1]
		return fr.lift([]value{args[0]}, func(a []value) value {
			return strings.TrimRightFunc(a[0].(string), func(r rune) bool {
				return call(fr.i, fr, 0, f, []value{r}).(bool)
			})
		})
	}
	intrinsics["strings.IndexFunc"] = func(fr *frame, args []value) value {
		f := args[1]
		return fr.lift([]value{args[0]}, func(a []value) value {
			return strings.IndexFunc(a[0].(string), func(r rune) bool {
				return call(fr.i, fr, 0, f, []value{r}).(bool)
			})
		})
	}
	intrinsics["strings.FieldsFunc"] = func(fr *frame, args []value) value {
		f := args[1]
		return fr.lift([]value{args[0]}, func(a []value) value {
			return strsVal(strings.FieldsFunc(a[0].(string), func(r rune) bool {
				return call(fr.i, fr, 0, f, []value{r}).(bool)
			}))
		})
	}
	pure("unicode.IsSpace", func(a []value) value { return unicode.IsSpace(a[0].(int32)) })
	pure("unicode.IsDigit", func(a []value) value { return unicode.IsDigit(a[0].(int32)) })
	pure("unicode.IsLetter", func(a []value) value { return unicode.IsLetter(a[0].(int32)) })
	pure("unicode.IsUpper", func(a []value) value { return unicode.IsUpper(a[0].(int32)) })

	// strings.Builder: structure{addr, buf}; buf holds a string value
	intrinsics["(*strings.Builder).String"] = func(fr *frame, args []value) value {
		return builderString((*fr.ptr(args[0])).(structure), 1)
	}
	intrinsics["(*strings.Builder).Len"] = func(fr *frame, args []value) value {
		s := builderString((*fr.ptr(args[0])).(structure), 1)
		return fr.lift([]value{s}, func(a []value) value { return len(a[0].(string)) })
	}
	intrinsics["(*strings.Builder).WriteString"] = func(fr *frame, args []value) value {
		st := (*fr.ptr(args[0])).(structure)
		st[1] = fr.appendStr(builderString(st, 1), args[1])
		n := fr.lift([]value{args[1]}, func(a []value) value { return len(a[0].(string)) })
		return tuple{n, iface{}}
	}
	intrinsics["(*strings.Builder).WriteByte"] = func(fr *frame, args []value) value {
		st := (*fr.ptr(args[0])).(structure)
		b := fr.lift([]value{args[1]}, func(a []value) value { return string([]byte{a[0].(uint8)}) })
		st[1] = fr.appendStr(builderString(st, 1), b)
		return iface{}
	}
	intrinsics["(*strings.Builder).WriteRune"] = func(fr *frame, args []value) value {
		st := (*fr.ptr(args[0])).(structure)
		b := fr.lift([]value{args[1]}, func(a []value) value { return string(a[0].(int32)) })
		st[1] = fr.appendStr(builderString(st, 1), b)
		return tuple{1, iface{}}
	}
	intrinsics["(*strings.Builder).Write"] = func(fr *frame, args []value) value {
		st := (*fr.ptr(args[0])).(structure)
		b := fr.lift([]value{args[1]}, func(a []value) value { return string(bytesOf(a[0])) })
		st[1] = fr.appendStr(builderString(st, 1), b)
		return tuple{len(args[1].([]value)), iface{}}
	}
	intrinsics["(*strings.Builder).Reset"] = func(fr *frame, args []value) value {
		st := (*fr.ptr(args[0])).(structure)
		st[1] = ""
		return nil
	}

	// ---------------- strconv
	intrinsics["strconv.Atoi"] = func(fr *frame, args []value) value {
		r := fr.lift(args, func(a []value) value {
			n, err := strconv.Atoi(a[0].(string))
			if err != nil {
				return tuple{n, err.Error()}
			}
			return tuple{n, ""}
		}).(tuple)
		return tuple{r[0], fr.optErr(r[1])}
	}
	intrinsics["strconv.ParseUint"] = func(fr *frame, args []value) value {
		r := fr.lift(args, func(a []value) value {
			n, err := strconv.ParseUint(a[0].(string), a[1].(int), a[2].(int))
			if err != nil {
				return tuple{n, err.Error()}
			}
			return tuple{n, ""}
		}).(tuple)
		return tuple{r[0], fr.optErr(r[1])}
	}
	intrinsics["strconv.ParseInt"] = func(fr *frame, args []value) value {
		r := fr.lift(args, func(a []value) value {
			n, err := strconv.ParseInt(a[0].(string), a[1].(int), a[2].(int))
			if err != nil {
				return tuple{n, err.Error()}
			}
			return tuple{n, ""}
		}).(tuple)
		return tuple{r[0], fr.optErr(r[1])}
	}
	pure("strconv.Itoa", func(a []value) value { return strconv.Itoa(a[0].(int)) })
	pure("strconv.FormatInt", func(a []value) value { return strconv.FormatInt(a[0].(int64), a[1].(int)) })
	pure("strconv.Quote", func(a []value) value { return strconv.Quote(a[0].(string)) })

	// ---------------- bytes
	pure("bytes.Equal", func(a []value) value { return bytes.Equal(bytesOf(a[0]), bytesOf(a[1])) })
	pure("bytes.Compare", func(a []value) value { return bytes.Compare(bytesOf(a[0]), bytesOf(a[1])) })
	pure("bytes.HasPrefix", func(a []value) value { return bytes.HasPrefix(bytesOf(a[0]), bytesOf(a[1])) })
	pure("bytes.HasSuffix", func(a []value) value { return bytes.HasSuffix(bytesOf(a[0]), bytesOf(a[1])) })
	pure("bytes.Index", func(a []value) value { return bytes.Index(bytesOf(a[0]), bytesOf(a[1])) })
	pure("bytes.LastIndex", func(a []value) value { return bytes.LastIndex(bytesOf(a[0]), bytesOf(a[1])) })
	pure("bytes.IndexByte", func(a []value) value { return bytes.IndexByte(bytesOf(a[0]), a[1].(uint8)) })
	pure("bytes.Contains", func(a []value) value { return bytes.Contains(bytesOf(a[0]), bytesOf(a[1])) })
	// bytes.Cut must return sub-slices; contents are what matters to the repo
	intrinsics["bytes.Cut"] = func(fr *frame, args []value) value {
		if hasSym(args[0]) || hasSym(args[1]) {
			return fr.lift(args, func(a []value) value {
				x, y, ok := bytes.Cut(bytesOf(a[0]), bytesOf(a[1]))
				return tuple{bytesVal(x), bytesVal(y), ok}
			})
		}
		s := args[0].([]value)
		sep := bytesOf(args[1])
		i := bytes.Index(bytesOf(s), sep)
		if i >= 0 {
			return tuple{s[:i], s[i+len(sep):], true}
		}
		return tuple{s, []value(nil), false}
	}
	pure("bytes.TrimSpace", func(a []value) value { return bytesVal(bytes.TrimSpace(bytesOf(a[0]))) })
	pure("bytes.Split", func(a []value) value {
		l := bytes.Split(bytesOf(a[0]), bytesOf(a[1]))
		r := make([]value, len(l))
		for i, e := range l {
			r[i] = bytesVal(e)
		}
		return r
	})

	// ---------------- path
	pure("path.Base", func(a []value) value { return path.Base(a[0].(string)) })
	pure("path.Dir", func(a []value) value { return path.Dir(a[0].(string)) })
	pure("path.Ext", func(a []value) value { return path.Ext(a[0].(string)) })
	pure("path.Join", func(a []value) value { return path.Join(strsOf(a[0])...) })
	pure("path.Clean", func(a []value) value { return path.Clean(a[0].(string)) })
	pure("path/filepath.Base", func(a []value) value { return filepath.Base(a[0].(string)) })
	pure("path/filepath.Dir", func(a []value) value { return filepath.Dir(a[0].(string)) })
	pure("path/filepath.Join", func(a []value) value { return filepath.Join(strsOf(a[0])...) })
	intrinsics["path.Match"] = func(fr *frame, args []value) value {
		r := fr.lift(args, func(a []value) value {
			ok, err := path.Match(a[0].(string), a[1].(string))
			if err != nil {
				return tuple{ok, err.Error()}
			}
			return tuple{ok, ""}
		}).(tuple)
		return tuple{r[0], fr.optErr(r[1])}
	}

	// ---------------- net/netip, net
	intrinsics["net/netip.ParseAddr"] = func(fr *frame, args []value) value {
		r := fr.lift(args, func(a []value) value {
			x, err := netip.ParseAddr(a[0].(string))
			if err != nil {
				return tuple{native{x}, err.Error()}
			}
			return tuple{native{x}, ""}
		}).(tuple)
		return tuple{r[0], fr.optErr(r[1])}
	}
	intrinsics["net/netip.ParsePrefix"] = func(fr *frame, args []value) value {
		r := fr.lift(args, func(a []value) value {
			x, err := netip.ParsePrefix(a[0].(string))
			if err != nil {
				return tuple{native{x}, err.Error()}
			}
			return tuple{native{x}, ""}
		}).(tuple)
		return tuple{r[0], fr.optErr(r[1])}
	}
	pure("net/netip.PrefixFrom", func(a []value) value {
		return native{netip.PrefixFrom(a[0].(native).v.(netip.Addr), a[1].(int))}
	})
	pure("(net/netip.Addr).AsSlice", func(a []value) value { return bytesVal(a[0].(native).v.(netip.Addr).AsSlice()) })
	pure("(net/netip.Addr).String", func(a []value) value { return a[0].(native).v.(netip.Addr).String() })
	pure("(net/netip.Addr).Is4", func(a []value) value { return a[0].(native).v.(netip.Addr).Is4() })
	pure("(net/netip.Addr).Is6", func(a []value) value { return a[0].(native).v.(netip.Addr).Is6() })
	pure("(net/netip.Addr).IsValid", func(a []value) value { return a[0].(native).v.(netip.Addr).IsValid() })
	pure("(net/netip.Addr).BitLen", func(a []value) value { return a[0].(native).v.(netip.Addr).BitLen() })
	pure("(net/netip.Prefix).Bits", func(a []value) value { return a[0].(native).v.(netip.Prefix).Bits() })
	pure("(net/netip.Prefix).Addr", func(a []value) value { return native{a[0].(native).v.(netip.Prefix).Addr()} })
	pure("(net/netip.Prefix).String", func(a []value) value { return a[0].(native).v.(netip.Prefix).String() })
	pure("(net/netip.Prefix).IsValid", func(a []value) value { return a[0].(native).v.(netip.Prefix).IsValid() })
	pure("(net/netip.Prefix).Masked", func(a []value) value { return native{a[0].(native).v.(netip.Prefix).Masked()} })
	pure("(net/netip.Prefix).Contains", func(a []value) value {
		return a[0].(native).v.(netip.Prefix).Contains(a[1].(native).v.(netip.Addr))
	})
	pure("(net.IPMask).Size", func(a []value) value {
		o, b := net.IPMask(bytesOf(a[0])).Size()
		return tuple{o, b}
	})

	// ---------------- net/url
	pure("net/url.QueryEscape", func(a []value) value { return url.QueryEscape(a[0].(string)) })
	pure("net/url.PathEscape", func(a []value) value { return url.PathEscape(a[0].(string)) })
	intrinsics["net/url.QueryUnescape"] = func(fr *frame, args []value) value {
		r := fr.lift(args, func(a []value) value {
			s, err := url.QueryUnescape(a[0].(string))
			if err != nil {
				return tuple{s, err.Error()}
			}
			return tuple{s, ""}
		}).(tuple)
		return tuple{r[0], fr.optErr(r[1])}
	}

	// ---------------- regexp
	intrinsics["regexp.MustCompile"] = func(fr *frame, args []value) value {
		return native{regexp.MustCompile(fr.concreteString(args[0]))}
	}
	intrinsics["regexp.Compile"] = func(fr *frame, args []value) value {
		re, err := regexp.Compile(fr.concreteString(args[0]))
		if err != nil {
			return tuple{(*value)(nil), fr.errVal(err)}
		}
		return tuple{native{re}, iface{}}
	}
	pure("regexp.QuoteMeta", func(a []value) value { return regexp.QuoteMeta(a[0].(string)) })
	intrinsics["regexp.MatchString"] = func(fr *frame, args []value) value {
		r := fr.lift(args, func(a []value) value {
			ok, err := regexp.MatchString(a[0].(string), a[1].(string))
			if err != nil {
				return tuple{ok, err.Error()}
			}
			return tuple{ok, ""}
		}).(tuple)
		return tuple{r[0], fr.optErr(r[1])}
	}
	re := func(v value) *regexp.Regexp {
		n, ok := v.(native)
		if !ok {
			return nil // nil *Regexp: native call panics like the real one
		}
		return n.v.(*regexp.Regexp)
	}
	pure("(*regexp.Regexp).MatchString", func(a []value) value { return re(a[0]).MatchString(a[1].(string)) })
	pure("(*regexp.Regexp).Match", func(a []value) value { return re(a[0]).Match(bytesOf(a[1])) })
	pure("(*regexp.Regexp).String", func(a []value) value { return re(a[0]).String() })
	pure("(*regexp.Regexp).FindString", func(a []value) value { return re(a[0]).FindString(a[1].(string)) })
	pure("(*regexp.Regexp).FindStringIndex", func(a []value) value { return intsVal(re(a[0]).FindStringIndex(a[1].(string))) })
	pure("(*regexp.Regexp).FindStringSubmatch", func(a []value) value { return strsVal(re(a[0]).FindStringSubmatch(a[1].(string))) })
	pure("(*regexp.Regexp).FindStringSubmatchIndex", func(a []value) value {
		return intsVal(re(a[0]).FindStringSubmatchIndex(a[1].(string)))
	})
	pure("(*regexp.Regexp).FindAllString", func(a []value) value { return strsVal(re(a[0]).FindAllString(a[1].(string), a[2].(int))) })
	pure("(*regexp.Regexp).FindSubmatch", func(a []value) value {
		l := re(a[0]).FindSubmatch(bytesOf(a[1]))
		if l == nil {
			return []value(nil)
		}
		r := make([]value, len(l))
		for i, e := range l {
			r[i] = bytesVal(e)
		}
		return r
	})
	pure("(*regexp.Regexp).FindIndex", func(a []value) value { return intsVal(re(a[0]).FindIndex(bytesOf(a[1]))) })
	pure("(*regexp.Regexp).ReplaceAllString", func(a []value) value {
		return re(a[0]).ReplaceAllString(a[1].(string), a[2].(string))
	})
	pure("(*regexp.Regexp).ReplaceAllLiteralString", func(a []value) value {
		return re(a[0]).ReplaceAllLiteralString(a[1].(string), a[2].(string))
	})
	pure("(*regexp.Regexp).ReplaceAll", func(a []value) value {
		return bytesVal(re(a[0]).ReplaceAll(bytesOf(a[1]), bytesOf(a[2])))
	})
	pure("(*regexp.Regexp).ReplaceAllLiteral", func(a []value) value {
		return bytesVal(re(a[0]).ReplaceAllLiteral(bytesOf(a[1]), bytesOf(a[2])))
	})

	// ---------------- fmt
	intrinsics["fmt.Sprintf"] = func(fr *frame, args []value) value { return fr.sprintf(args[0], args[1]) }
	intrinsics["fmt.Sprint"] = func(fr *frame, args []value) value { return fr.sprint(args[0], false) }
	intrinsics["fmt.Sprintln"] = func(fr *frame, args []value) value { return fr.sprint(args[0], true) }
	intrinsics["fmt.Errorf"] = func(fr *frame, args []value) value {
		format := args[0]
		msg := fr.sprintf(format, args[1])
		if f, ok := format.(string); ok && strings.Contains(f, "%w") {
			for _, a := range args[1].([]value) {
				if it, ok := a.(iface); ok && it.t != nil && types.Implements(it.t, errorIface()) {
					return fr.mkWrapErr(msg, it)
				}
			}
		}
		return fr.mkErr(msg)
	}
	intrinsics["fmt.Fprintf"] = func(fr *frame, args []value) value {
		fr.writeTo(args[0], fr.sprintf(args[1], args[2]))
		return tuple{0, iface{}}
	}
	intrinsics["fmt.Fprint"] = func(fr *frame, args []value) value {
		fr.writeTo(args[0], fr.sprint(args[1], false))
		return tuple{0, iface{}}
	}
	intrinsics["fmt.Fprintln"] = func(fr *frame, args []value) value {
		fr.writeTo(args[0], fr.sprint(args[1], true))
		return tuple{0, iface{}}
	}
	intrinsics["fmt.Printf"] = func(fr *frame, args []value) value {
		fr.i.ctx.env.writeStd(1, fr.sprintf(args[0], args[1]))
		return tuple{0, iface{}}
	}
	intrinsics["fmt.Print"] = func(fr *frame, args []value) value {
		fr.i.ctx.env.writeStd(1, fr.sprint(args[0], false))
		return tuple{0, iface{}}
	}
	intrinsics["fmt.Println"] = func(fr *frame, args []value) value {
		fr.i.ctx.env.writeStd(1, fr.sprint(args[0], true))
		return tuple{0, iface{}}
	}
	intrinsics["io.WriteString"] = func(fr *frame, args []value) value {
		fr.writeTo(args[0], args[1])
		return tuple{0, iface{}}
	}

	// ---------------- errors
	intrinsics["errors.Is"] = func(fr *frame, args []value) value {
		err, target := args[0].(iface), args[1].(iface)
		for depth := 0; depth < 10; depth++ {
			if err.t == nil {
				return target.t == nil
			}
			if sameType(err.t, target.t) && safeEq(err.v, target.v) {
				return true
			}
			m := fr.i.findMethod(err.t, "Unwrap")
			if m == nil {
				return false
			}
			next, ok := call(fr.i, fr, 0, m, []value{err.v}).(iface)
			if !ok {
				return false
			}
			err = next
		}
		return false
	}
	intrinsics["errors.Unwrap"] = func(fr *frame, args []value) value {
		err := args[0].(iface)
		if err.t == nil {
			return iface{}
		}
		m := fr.i.findMethod(err.t, "Unwrap")
		if m == nil {
			return iface{}
		}
		return call(fr.i, fr, 0, m, []value{err.v})
	}

	// ---------------- sort (insertion sort = what Go does for n <= 12)
	intrinsics["sort.Strings"] = func(fr *frame, args []value) value {
		l := args[0].([]value)
		fr.insertionSort(len(l), func(i, j int) bool {
			return fr.branch(fr.lift([]value{l[i], l[j]}, func(a []value) value { return a[0].(string) < a[1].(string) }))
		}, func(i, j int) { l[i], l[j] = l[j], l[i] })
		return nil
	}
	intrinsics["sort.Ints"] = func(fr *frame, args []value) value {
		l := args[0].([]value)
		fr.insertionSort(len(l), func(i, j int) bool {
			return fr.branch(fr.lift([]value{l[i], l[j]}, func(a []value) value { return a[0].(int) < a[1].(int) }))
		}, func(i, j int) { l[i], l[j] = l[j], l[i] })
		return nil
	}
	intrinsics["sort.Slice"] = func(fr *frame, args []value) value {
		l := args[0].(iface).v.([]value)
		less := args[1]
		fr.insertionSort(len(l), func(i, j int) bool {
			return fr.branch(call(fr.i, fr, 0, less, []value{i, j}))
		}, func(i, j int) { l[i], l[j] = l[j], l[i] })
		return nil
	}
	intrinsics["sort.SliceStable"] = intrinsics["sort.Slice"]

	// ---------------- time
	pure("(time.Duration).Seconds", func(a []value) value { return time.Duration(a[0].(int64)).Seconds() })
	pure("(time.Duration).String", func(a []value) value { return time.Duration(a[0].(int64)).String() })
	intrinsics["time.Sleep"] = func(fr *frame, args []value) value { return nil }
}

func errorIface() *types.Interface {
	return types.Universe.Lookup("error").Type().Underlying().(*types.Interface)
}

// optErr turns a (possibly symbolic) error text ("" = nil) into an error value.
func (fr *frame) optErr(msg value) value {
	switch m := msg.(type) {
	case string:
		if m == "" {
			return iface{}
		}
		return fr.mkErr(m)
	case *Sym:
		isNil := fr.lift([]value{m}, func(a []value) value { return a[0].(string) == "" })
		if fr.branch(isNil) {
			return iface{}
		}
		return fr.mkErr(m)
	}
	panic("optErr")
}

// insertionSort mirrors sort.insertionSort of the Go library, which is what
// sort.Slice / sort.Strings / slices.Sort run for up to 12 elements.
func (fr *frame) insertionSort(n int, less func(i, j int) bool, swap func(i, j int)) {
	if n > 12 {
		fr.i.ctx.notes = append(fr.i.ctx.notes, fmt.Sprintf("sort of %d elements by insertion sort (pdqsort in Go; differs only for ties)", n))
		// use a stable merge-free approach: simple insertion sort is still a correct sort
	}
	for i := 1; i < n; i++ {
		for j := i; j > 0 && less(j, j-1); j-- {
			swap(j, j-1)
		}
	}
}

var _ = sort.Strings
var _ = errors.New

// findMethod returns the exported method name of type t, or nil.
func (i *interpreter) findMethod(t types.Type, name string) *ssa.Function {
	sel := i.prog.MethodSets.MethodSet(t).Lookup(nil, name)
	if sel == nil {
		return nil
	}
	return i.prog.MethodValue(sel)
}
