package interp

// Environment stubs: per-path virtual file system, standard streams,
// clock, process arguments.  Every write is recorded (sinks of C17, status
// and history observations of C09/C13).

import (
	"fmt"
	"sort"
	"strings"
)

type vnode struct {
	path    string
	isDir   bool
	data    value   // whole-content value written by WriteFile (bytes []value or native blob)
	chunks  []value // appended pieces (strings or *Sym) written through *os.File
	mode    int
	symlink string
}

type vfile struct {
	node   *vnode
	name   string
	std    int // 0 regular, 1 stdout, 2 stderr, 3 stdin
	closed bool
	rpos   int
	fd     int
	write  bool
}

type sinkEvent struct {
	Kind string // write, create, rename, remove, flock, mkdir, exec, send, http
	Path string
	Data value
}

type envState struct {
	c       *pathCtx
	files   map[string]*vnode
	order   []string
	stdout  []value
	stderr  []value
	events  []sinkEvent
	args    []string
	envv    map[string]string
	nextFd  int
	clock   value // last instant handed out (int64 or *Term)
	nclock  int
	cwd     string
	home    string
	hooks   map[string]value // harness-side callbacks (closures) by name
	blobs   []blobEntry
	locks   map[string]bool
	lockFd  map[int]string
	fdPaths map[int]string
	// cells for std globals
	stdoutCell, stderrCell, stdinCell *value
	globals                           map[string]*value
}

func newEnvState(c *pathCtx) *envState {
	e := &envState{c: c, files: map[string]*vnode{}, envv: map[string]string{}, nextFd: 3,
		cwd: "/work", home: "/home/user", hooks: map[string]value{}, locks: map[string]bool{}, lockFd: map[int]string{}, fdPaths: map[int]string{},
		globals: map[string]*value{}}
	mk := func(std int, name string) *value {
		var cell value = native{&vfile{name: name, std: std, fd: std % 3}}
		p := &cell
		var pp value = p
		return &pp
	}
	e.stdoutCell = mk(1, "/dev/stdout")
	e.stderrCell = mk(2, "/dev/stderr")
	e.stdinCell = mk(3, "/dev/stdin")
	e.files["/"] = &vnode{path: "/", isDir: true}
	e.args = []string{"prog"}
	if c.ex != nil && c.ex.opt.Args != nil {
		e.args = c.ex.opt.Args
	}
	return e
}

func (e *envState) writeStd(std int, s value) {
	if std == 1 {
		e.stdout = append(e.stdout, s)
	} else {
		e.stderr = append(e.stderr, s)
	}
	e.events = append(e.events, sinkEvent{Kind: "write", Path: fmt.Sprintf("/dev/std%d", std), Data: s})
}

func cleanPath(e *envState, p string) string {
	if !strings.HasPrefix(p, "/") {
		p = e.cwd + "/" + p
	}
	// simple normalisation
	parts := strings.Split(p, "/")
	var out []string
	for _, x := range parts {
		switch x {
		case "", ".":
		case "..":
			if len(out) > 0 {
				out = out[:len(out)-1]
			}
		default:
			out = append(out, x)
		}
	}
	return "/" + strings.Join(out, "/")
}

func (e *envState) lookupNode(p string) *vnode {
	p = cleanPath(e, p)
	n := e.files[p]
	for depth := 0; n != nil && n.symlink != "" && depth < 8; depth++ {
		t := n.symlink
		if !strings.HasPrefix(t, "/") {
			t = parentDir(p) + "/" + t
		}
		p = cleanPath(e, t)
		n = e.files[p]
	}
	if n == nil {
		// resolve symlinked parent directories
		dir, base := parentDir(p), p[strings.LastIndex(p, "/")+1:]
		if dir != p && dir != "/" && dir != "" {
			if dn := e.files[dir]; dn != nil && dn.symlink != "" {
				t := dn.symlink
				if !strings.HasPrefix(t, "/") {
					t = parentDir(dir) + "/" + t
				}
				return e.lookupNode(cleanPath(e, t) + "/" + base)
			}
		}
	}
	return n
}

func parentDir(p string) string {
	i := strings.LastIndex(p, "/")
	if i <= 0 {
		return "/"
	}
	return p[:i]
}

func (e *envState) dirExists(p string) bool {
	p = cleanPath(e, p)
	if p == "/" {
		return true
	}
	n := e.lookupNode(p)
	return n != nil && n.isDir
}

func (e *envState) putNode(p string, n *vnode) {
	p = cleanPath(e, p)
	n.path = p
	if _, ok := e.files[p]; !ok {
		e.order = append(e.order, p)
	}
	e.files[p] = n
}

func (e *envState) mkdirAll(p string) {
	p = cleanPath(e, p)
	parts := strings.Split(strings.Trim(p, "/"), "/")
	cur := ""
	for _, x := range parts {
		cur += "/" + x
		if e.files[cur] == nil {
			e.putNode(cur, &vnode{isDir: true})
		}
	}
}

func (e *envState) listDir(p string) []string {
	p = cleanPath(e, p)
	var names []string
	for q := range e.files {
		if q != p && parentDir(q) == p {
			names = append(names, q[strings.LastIndex(q, "/")+1:])
		}
	}
	sort.Strings(names)
	return names
}

// content returns the content of a node as a list of chunks.
func (n *vnode) content() []value {
	if n.data != nil {
		return append([]value{n.data}, n.chunks...)
	}
	return n.chunks
}

// scheduleKeys returns the keys of m in the iteration schedule of this path.
func (c *pathCtx) scheduleKeys(m *omap) []value {
	keys := append([]value(nil), m.keys...)
	switch c.mapOrder {
	case 1: // reversed
		for i, j := 0, len(keys)-1; i < j; i, j = i+1, j-1 {
			keys[i], keys[j] = keys[j], keys[i]
		}
	case 2: // rotated by one
		if len(keys) > 1 {
			keys = append(keys[1:], keys[0])
		}
	}
	return keys
}
