// Copyright 2013 The Go Authors. All rights reserved.
// Use of this source code is governed by a BSD-style
// license that can be found in the LICENSE file.
//
// Derived from golang.org/x/tools/go/ssa/interp (v0.29.0).
// gosx: symbolic interpreter for Go SSA.  Repository packages are
// interpreted from SSA; the standard library is reached through native
// intrinsics and environment stubs.

package interp

import (
	"fmt"
	"go/token"
	"go/types"
	"os"
	"runtime"
	"runtime/debug"
	"slices"
	"strings"

	"golang.org/x/tools/go/ssa"
)

var debugPanics = os.Getenv("GOSX_DEBUG") != ""

type continuation int

const (
	kNext continuation = iota
	kReturn
	kJump
)

type Program struct {
	Prog        *ssa.Program
	Interpreted func(pkgPath string) bool
	Sizes       types.Sizes
	allPkgs     []*ssa.Package
}

func NewProgram(prog *ssa.Program, interpreted func(string) bool) *Program {
	p := &Program{Prog: prog, Interpreted: interpreted, Sizes: &types.StdSizes{WordSize: 8, MaxAlign: 8}}
	p.allPkgs = prog.AllPackages()
	slices.SortFunc(p.allPkgs, func(a, b *ssa.Package) int { return strings.Compare(a.Pkg.Path(), b.Pkg.Path()) })
	return p
}

// State of one path.
type interpreter struct {
	p                  *Program
	prog               *ssa.Program
	globals            map[*ssa.Global]*value
	ctx                *pathCtx
	runtimeErrorString types.Type
	inited             map[*ssa.Package]bool
}

type deferred struct {
	fn    value
	args  []value
	instr *ssa.Defer
	tail  *deferred
}

type frame struct {
	i                *interpreter
	caller           *frame
	fn               *ssa.Function
	block, prevBlock *ssa.BasicBlock
	env              map[ssa.Value]value // dynamic values of SSA variables
	locals           []value
	defers           *deferred
	depth            int // call depth (unbounded recursion of the code under test is reported)
	result           value
	panicking        bool
	panic            interface{}
	phitemps         []value // temporaries for parallel phi assignment
	curInstr         ssa.Instruction
}

func (fr *frame) faultingInstr() string {
	if fr.curInstr == nil {
		return ""
	}
	return strings.TrimPrefix(fmt.Sprintf("%T", fr.curInstr), "*ssa.")
}

func mustDeref(t types.Type) types.Type {
	if p, ok := t.Underlying().(*types.Pointer); ok {
		return p.Elem()
	}
	panic(fmt.Sprintf("mustDeref: %s is not a pointer", t))
}

func (fr *frame) get(key ssa.Value) value {
	switch key := key.(type) {
	case nil:
		return nil
	case *ssa.Function, *ssa.Builtin:
		return key
	case *ssa.Const:
		return constValue(key)
	case *ssa.Global:
		if r, ok := fr.i.globals[key]; ok {
			return r
		}
		return fr.i.stdGlobal(key)
	}
	if r, ok := fr.env[key]; ok {
		return r
	}
	panic(fmt.Sprintf("get: no value for %T: %v", key, key.Name()))
}

// runDefer runs a deferred call d.
// It always returns normally, but may set or clear fr.panic.
func (fr *frame) runDefer(d *deferred) {
	var ok bool
	defer func() {
		if !ok {
			// Deferred call created a new state of panic.
			e := recover()
			if pa, isAbort := e.(pathAbort); isAbort {
				panic(pa)
			}
			fr.panicking = true
			fr.panic = e
		}
	}()
	call(fr.i, fr, d.instr.Pos(), d.fn, d.args)
	ok = true
}

func (fr *frame) runDefers() {
	for d := fr.defers; d != nil; d = d.tail {
		fr.runDefer(d)
	}
	fr.defers = nil
	if fr.panicking {
		panic(fr.panic) // new panic, or still panicking
	}
}

func lookupMethod(i *interpreter, typ types.Type, meth *types.Func) *ssa.Function {
	if typ == nativeReaderType {
		return nil
	}
	sel := i.prog.MethodSets.MethodSet(typ).Lookup(meth.Pkg(), meth.Name())
	if sel == nil {
		return nil
	}
	return i.prog.MethodValue(sel)
}

func (fr *frame) step() {
	c := fr.i.ctx
	c.steps++
	if c.steps > c.ex.opt.MaxSteps {
		panic(pathAbort{"limit", fmt.Sprintf("step budget %d exhausted in %s", c.ex.opt.MaxSteps, fr.fn)})
	}
}

// visitInstr interprets a single ssa.Instruction within the activation
// record frame.
func visitInstr(fr *frame, instr ssa.Instruction) continuation {
	fr.step()
	switch instr := instr.(type) {
	case *ssa.DebugRef:
		// no-op

	case *ssa.UnOp:
		fr.env[instr] = fr.unop(instr, fr.get(instr.X))

	case *ssa.BinOp:
		fr.env[instr] = fr.binop(instr.Op, instr.X.Type(), fr.get(instr.X), fr.get(instr.Y))

	case *ssa.Call:
		fn, args := prepareCall(fr, &instr.Call)
		fr.env[instr] = call(fr.i, fr, instr.Pos(), fn, args)

	case *ssa.ChangeInterface:
		fr.env[instr] = fr.get(instr.X)

	case *ssa.ChangeType:
		fr.env[instr] = fr.get(instr.X) // (can't fail)

	case *ssa.Convert:
		fr.env[instr] = fr.conv(instr.Type(), instr.X.Type(), fr.get(instr.X))

	case *ssa.SliceToArrayPointer:
		fr.env[instr] = sliceToArrayPointer(instr.Type(), instr.X.Type(), fr.get(instr.X))

	case *ssa.MakeInterface:
		fr.env[instr] = iface{t: instr.X.Type(), v: fr.get(instr.X)}

	case *ssa.Extract:
		fr.env[instr] = fr.get(instr.Tuple).(tuple)[instr.Index]

	case *ssa.Slice:
		fr.env[instr] = fr.slice(fr.get(instr.X), fr.get(instr.Low), fr.get(instr.High), fr.get(instr.Max))

	case *ssa.Return:
		switch len(instr.Results) {
		case 0:
		case 1:
			fr.result = fr.get(instr.Results[0])
		default:
			var res []value
			for _, r := range instr.Results {
				res = append(res, fr.get(r))
			}
			fr.result = tuple(res)
		}
		fr.block = nil
		return kReturn

	case *ssa.RunDefers:
		fr.runDefers()

	case *ssa.Panic:
		v := fr.get(instr.X)
		tp := targetPanic{v: v}
		if it, ok := v.(iface); ok && it.t != nil {
			if m := fr.i.findMethod(it.t, "Error"); m != nil && fr.i.interpretedFn(m) {
				func() {
					defer func() { recover() }()
					tp.msg = toString(call(fr.i, fr, 0, m, []value{it.v}))
				}()
			}
		}
		panic(tp)

	case *ssa.Store:
		store(mustDeref(instr.Addr.Type()), fr.ptr(fr.get(instr.Addr)), fr.get(instr.Val))

	case *ssa.If:
		succ := 1
		if fr.branch(fr.get(instr.Cond)) {
			succ = 0
		}
		fr.prevBlock, fr.block = fr.block, fr.block.Succs[succ]
		return kJump

	case *ssa.Jump:
		fr.prevBlock, fr.block = fr.block, fr.block.Succs[0]
		return kJump

	case *ssa.Defer:
		fn, args := prepareCall(fr, &instr.Call)
		defers := &fr.defers
		if into := fr.get(instr.DeferStack); into != nil {
			defers = into.(**deferred)
		}
		*defers = &deferred{
			fn:    fn,
			args:  args,
			instr: instr,
			tail:  *defers,
		}

	case *ssa.Alloc:
		var addr *value
		if instr.Heap {
			// new
			addr = new(value)
			fr.env[instr] = addr
		} else {
			// local
			addr = fr.env[instr].(*value)
		}
		*addr = fr.i.zero(mustDeref(instr.Type()))

	case *ssa.MakeSlice:
		n := fr.concreteInt(fr.get(instr.Cap))
		slice := make([]value, n)
		tElt := instr.Type().Underlying().(*types.Slice).Elem()
		for i := range slice {
			slice[i] = fr.i.zero(tElt)
		}
		fr.env[instr] = slice[:fr.concreteInt(fr.get(instr.Len))]

	case *ssa.MakeMap:
		fr.env[instr] = makeMap(instr.Type().Underlying().(*types.Map).Key(), 0)

	case *ssa.Range:
		fr.env[instr] = fr.rangeIter(fr.get(instr.X), instr.X.Type())

	case *ssa.Next:
		fr.env[instr] = fr.get(instr.Iter).(iter).next(fr)

	case *ssa.FieldAddr:
		fr.env[instr] = &(*fr.ptr(fr.get(instr.X))).(structure)[instr.Field]

	case *ssa.Field:
		fr.env[instr] = fr.get(instr.X).(structure)[instr.Field]

	case *ssa.IndexAddr:
		x := fr.get(instr.X)
		idx := fr.concreteInt(fr.get(instr.Index))
		switch x := x.(type) {
		case []value:
			fr.env[instr] = &x[idx]
		case *value: // *array
			fr.env[instr] = &(*x).(array)[idx]
		default:
			panic(fmt.Sprintf("unexpected x type in IndexAddr: %T", x))
		}

	case *ssa.Index:
		x := fr.get(instr.X)
		idx := fr.get(instr.Index)
		switch x.(type) {
		case array:
			fr.env[instr] = x.(array)[fr.concreteInt(idx)]
		case string, *Sym:
			fr.env[instr] = fr.lift([]value{x, idx}, func(a []value) value {
				return a[0].(string)[asInt64(a[1])]
			})
		default:
			panic(fmt.Sprintf("unexpected x type in Index: %T", x))
		}

	case *ssa.Lookup:
		fr.env[instr] = fr.lookup(instr, fr.get(instr.X), fr.get(instr.Index))

	case *ssa.MapUpdate:
		m := fr.get(instr.Map)
		key := fr.get(instr.Key)
		v := fr.get(instr.Value)
		switch m := m.(type) {
		case *omap:
			if m == nil {
				panic("assignment to entry in nil map")
			}
			m.insert(fr, key, v)
		default:
			panic(fmt.Sprintf("illegal map type: %T", m))
		}

	case *ssa.TypeAssert:
		fr.env[instr] = typeAssert(fr.i, instr, fr.get(instr.X).(iface))

	case *ssa.MakeClosure:
		var bindings []value
		for _, binding := range instr.Bindings {
			bindings = append(bindings, fr.get(binding))
		}
		fr.env[instr] = &closure{instr.Fn.(*ssa.Function), bindings}

	case *ssa.Phi:
		panic("unreachable: phi")

	default:
		panic(pathAbort{"unsupported", fmt.Sprintf("instruction %T in %s", instr, fr.fn)})
	}
	return kNext
}

// ptr returns v as a concrete pointer, forking if it is a table of pointers.
func (fr *frame) ptr(v value) *value {
	if s, ok := v.(*Sym); ok {
		v = fr.concretize(s)
	}
	p := v.(*value)
	if p == nil {
		panic("runtime error: invalid memory address or nil pointer dereference")
	}
	return p
}

// prepareCall determines the function value and argument values for a
// function call in a Call, Go or Defer instruction, performing
// interface method lookup if needed.
func prepareCall(fr *frame, call *ssa.CallCommon) (fn value, args []value) {
	v := fr.get(call.Value)
	if call.Method == nil {
		// Function call.
		fn = v
	} else {
		// Interface method invocation.
		if s, ok := v.(*Sym); ok {
			v = fr.concretize(s)
		}
		recv := v.(iface)
		if recv.t == nil {
			panic("runtime error: invalid memory address or nil pointer dereference (method invoked on nil interface)")
		}
		if f := lookupMethod(fr.i, recv.t, call.Method); f == nil {
			// native value: dispatch by name
			fn = nativeMethod{recv.t, call.Method.Name()}
		} else {
			fn = f
		}
		args = append(args, recv.v)
	}
	for _, arg := range call.Args {
		args = append(args, fr.get(arg))
	}
	return
}

type nativeMethod struct {
	t    types.Type
	name string
}

// call interprets a call to a function (function, builtin or closure)
// fn with arguments args, returning its result.
func call(i *interpreter, caller *frame, callpos token.Pos, fn value, args []value) value {
	switch fn := fn.(type) {
	case *ssa.Function:
		if fn == nil {
			panic("runtime error: invalid memory address or nil pointer dereference (call of nil function)")
		}
		return callSSA(i, caller, callpos, fn, args, nil)
	case *closure:
		return callSSA(i, caller, callpos, fn.Fn, args, fn.Env)
	case *ssa.Builtin:
		return callBuiltin(caller, callpos, fn, args)
	case nativeMethod:
		switch fn.name {
		case "Close":
			return iface{}
		}
		panic(pathAbort{"unsupported", fmt.Sprintf("method %s on %s", fn.name, fn.t)})
	case *Sym:
		return call(i, caller, callpos, caller.concretize(fn), args)
	}
	panic(fmt.Sprintf("cannot call %T", fn))
}

func (i *interpreter) interpretedFn(fn *ssa.Function) bool {
	pkg := fn.Pkg
	if pkg == nil {
		if o := fn.Origin(); o != nil {
			pkg = o.Pkg
		}
	}
	if pkg == nil {
		// synthetic wrapper, bound method closure, thunk
		if fn.Parent() != nil {
			return i.interpretedFn(fn.Parent())
		}
		return true
	}
	if i.p.Interpreted(pkg.Pkg.Path()) {
		return true
	}
	if fn.Parent() != nil {
		return i.interpretedFn(fn.Parent())
	}
	return interpretedStdFuncs[fnKey(fn)]
}

func fnKey(fn *ssa.Function) string {
	if o := fn.Origin(); o != nil {
		return o.String()
	}
	return fn.String()
}

// callSSA interprets a call to function fn with arguments args,
// and lexical environment env, returning its result.
func callSSA(i *interpreter, caller *frame, callpos token.Pos, fn *ssa.Function, args []value, env []value) value {
	fr := &frame{
		i:      i,
		caller: caller, // for panic/recover
		fn:     fn,
	}
	if caller != nil {
		fr.depth = caller.depth + 1
		if fr.depth > 5000 {
			// the real program dies with "fatal error: stack overflow"
			// (after exhausting 1 GB of stack); that is a crash, not a bailout
			panic(targetPanic{iface{t: types.Typ[types.String], v: "stack overflow: call depth exceeds 5000 in " + fn.String() + " (unbounded recursion)"}, ""})
		}
	}
	if fn.Parent() == nil {
		name := fnKey(fn)
		if fn.Pkg != nil && strings.HasSuffix(fn.Pkg.Pkg.Path(), "/pkg/vf") {
			if h := verifAPI["verif"+fn.Name()]; h != nil {
				return h(fr, args)
			}
		}
		if ext := intrinsics[name]; ext != nil {
			return ext(fr, args)
		}
		if fn.Name() == "init" && fn.Pkg != nil && fn.Signature.Recv() == nil {
			if !i.p.Interpreted(fn.Pkg.Pkg.Path()) {
				return nil // native packages are initialised by the engine process
			}
		}
		if !i.interpretedFn(fn) {
			panic(pathAbort{"unsupported", "call of " + name})
		}
		if fn.Blocks == nil {
			panic(pathAbort{"unsupported", "no code for function: " + name})
		}
	}

	// generic function body?
	if fn.TypeParams().Len() > 0 && len(fn.TypeArgs()) == 0 {
		panic("interp requires ssa.BuilderMode to include InstantiateGenerics to execute generics")
	}
	c := i.ctx
	c.funcs[fnKey(fn)]++
	saved := c.curFrame
	c.curFrame = fr
	defer func() { c.curFrame = saved }()

	fr.env = make(map[ssa.Value]value)
	fr.block = fn.Blocks[0]
	fr.locals = make([]value, len(fn.Locals))
	for k, l := range fn.Locals {
		fr.locals[k] = i.zero(mustDeref(l.Type()))
		fr.env[l] = &fr.locals[k]
	}
	for k, p := range fn.Params {
		fr.env[p] = args[k]
	}
	for k, fv := range fn.FreeVars {
		fr.env[fv] = env[k]
	}
	for fr.block != nil {
		runFrame(fr)
	}
	return fr.result
}

func (fr *frame) stack() []string {
	var s []string
	for f := fr; f != nil && len(s) < 12; f = f.caller {
		s = append(s, f.fn.String())
	}
	return s
}

// runFrame executes SSA instructions starting at fr.block and
// continuing until a return, a panic, or a recovered panic.
func runFrame(fr *frame) {
	defer func() {
		if fr.block == nil {
			return // normal return
		}
		e := recover()
		if pa, ok := e.(pathAbort); ok {
			panic(pa) // never visible to the target program
		}
		if ee, ok := e.(engineExit); ok {
			panic(ee)
		}
		c := fr.i.ctx
		if !c.panicking {
			if debugPanics {
				fmt.Fprintf(os.Stderr, "PANIC in %s: %v\n%s\n", fr.fn, e, debug.Stack())
			}
			c.panicking = true
			c.panicSite = fr.fn.String()
			c.panicStack = fr.stack()
			if bi := fr.faultingInstr(); bi != "" {
				c.panicSite += " @ " + bi
			}
			// a recovered panic that is raised again keeps its original site
			if c.lastRecMsg != "" && strings.Contains(panicMessage(e), c.lastRecMsg) {
				c.panicSite = c.lastRecSite
				c.panicStack = c.lastRecStack
			}
		}
		fr.panicking = true
		fr.panic = e
		fr.runDefers()
		fr.block = fr.fn.Recover
	}()

	for {
		nonPhis := executePhis(fr)
		for _, instr := range nonPhis {
			fr.curInstr = instr
			if visitInstr(fr, instr) == kReturn {
				return
			}
		}
	}
}

// executePhis executes the phi-nodes at the start of the current
// block and returns the non-phi instructions.
func executePhis(fr *frame) []ssa.Instruction {
	firstNonPhi := -1
	for i, instr := range fr.block.Instrs {
		if _, ok := instr.(*ssa.Phi); !ok {
			firstNonPhi = i
			break
		}
	}
	nonPhis := fr.block.Instrs[firstNonPhi:]
	if firstNonPhi > 0 {
		phis := fr.block.Instrs[:firstNonPhi]
		predIndex := slices.Index(fr.block.Preds, fr.prevBlock)
		fr.phitemps = fr.phitemps[:0]
		for _, phi := range phis {
			phi := phi.(*ssa.Phi)
			fr.phitemps = append(fr.phitemps, fr.get(phi.Edges[predIndex]))
		}
		for i, phi := range phis {
			fr.env[phi.(*ssa.Phi)] = fr.phitemps[i]
		}
	}
	return nonPhis
}

// doRecover implements the recover() built-in.
func doRecover(caller *frame) value {
	if caller != nil && !caller.panicking &&
		caller.caller != nil && caller.caller.panicking {
		caller.caller.panicking = false
		p := caller.caller.panic
		caller.caller.panic = nil
		ctx := caller.i.ctx
		ctx.lastRecMsg = strings.TrimPrefix(strings.TrimPrefix(panicMessage(p), "panic: "), "runtime error: ")
		ctx.lastRecSite, ctx.lastRecStack = ctx.panicSite, ctx.panicStack
		ctx.panicking = false
		ctx.panicSite = ""
		switch p := p.(type) {
		case targetPanic:
			// The target program explicitly called panic().
			return p.v
		case runtime.Error:
			// The interpreter encountered a runtime error.
			return iface{caller.i.runtimeErrorString, p.Error()}
		case string:
			// The interpreter explicitly called panic().
			return iface{caller.i.runtimeErrorString, p}
		default:
			panic(fmt.Sprintf("unexpected panic type %T in target call to recover()", p))
		}
	}
	return iface{}
}

// engineExit is raised by os.Exit.
type engineExit struct{ code int }

// runEntry creates a fresh interpreter state for one path and runs entry
// ("pkgpath.Func").
func (p *Program) runEntry(c *pathCtx, entry string) {
	i := &interpreter{
		p:       p,
		prog:    p.Prog,
		globals: make(map[*ssa.Global]*value),
		ctx:     c,
		inited:  map[*ssa.Package]bool{},
	}
	c.env = newEnvState(c)
	if rt := p.Prog.ImportedPackage("runtime"); rt != nil {
		i.runtimeErrorString = rt.Type("errorString").Object().Type()
	} else {
		i.runtimeErrorString = types.Typ[types.String]
	}
	dot := strings.LastIndex(entry, ".")
	pkgPath, fname := entry[:dot], entry[dot+1:]
	var mainpkg *ssa.Package
	for _, pkg := range p.allPkgs {
		if !p.Interpreted(pkg.Pkg.Path()) {
			continue
		}
		if pkg.Pkg.Path() == pkgPath {
			mainpkg = pkg
		}
		for _, m := range pkg.Members {
			if g, ok := m.(*ssa.Global); ok {
				cell := i.zero(mustDeref(g.Type()))
				i.globals[g] = &cell
			}
		}
	}
	if mainpkg == nil {
		panic(pathAbort{"unsupported", "entry package not found: " + pkgPath})
	}
	fn := mainpkg.Func(fname)
	if fn == nil {
		panic(pathAbort{"unsupported", "entry function not found: " + entry})
	}
	defer func() {
		if e := recover(); e != nil {
			if ee, ok := e.(engineExit); ok {
				c.notes = append(c.notes, fmt.Sprintf("os.Exit(%d)", ee.code))
				return
			}
			panic(e)
		}
	}()
	call(i, nil, token.NoPos, mainpkg.Func("init"), nil)
	call(i, nil, token.NoPos, fn, nil)
}
