package interp

// encoding/xml stub.
//
// Concrete values are encoded/decoded by the real encoding/xml through
// reflection: the go/types struct type is rebuilt as a reflect type with the
// same exported fields and tags (user UnmarshalXML/MarshalXML methods are not
// available there; see DESIGN.md).  Values that contain symbols are
// marshalled to a token  <blob>«blob:N»</blob>  that refers to a deep copy
// kept in the path's blob table; Unmarshal of text that contains such tokens
// merges the stored values into the target by field name.  Contract assumed:
// Marshal is injective and Unmarshal(Marshal(v)) == v.

import (
	"encoding/xml"
	"fmt"
	"go/types"
	"reflect"
	"regexp"
	"strconv"
	"strings"
)

type blobEntry struct {
	val value
	typ types.Type
}

var blobTokenRE = regexp.MustCompile(`«blob:(\d+)»`)

func isNamed(t types.Type, pkg, name string) bool {
	n, ok := t.(*types.Named)
	return ok && n.Obj().Pkg() != nil && n.Obj().Pkg().Path() == pkg && n.Obj().Name() == name
}

// codecFields lists the exported fields of a struct; unexported embedded
// structs are inlined (their fields are promoted, as encoding/xml sees them).
type codecField struct {
	path []int
	name string
	typ  types.Type
	tag  string
	anon bool
}

func codecFields(u *types.Struct, prefix []int) []codecField {
	var out []codecField
	for k := 0; k < u.NumFields(); k++ {
		f := u.Field(k)
		p := append(append([]int{}, prefix...), k)
		if !f.Exported() {
			if f.Embedded() {
				if es, ok := f.Type().Underlying().(*types.Struct); ok {
					out = append(out, codecFields(es, p)...)
				}
			}
			continue
		}
		out = append(out, codecField{p, f.Name(), f.Type(), u.Tag(k), f.Embedded()})
	}
	return out
}

func (i *interpreter) reflectType(t types.Type, seen map[types.Type]reflect.Type) reflect.Type {
	if r, ok := seen[t]; ok {
		if r == nil {
			panic(pathAbort{"unsupported", "recursive type in xml codec: " + t.String()})
		}
		return r
	}
	if isNamed(t, "encoding/xml", "Name") {
		return reflect.TypeOf(xml.Name{})
	}
	seen[t] = nil
	var r reflect.Type
	switch u := t.Underlying().(type) {
	case *types.Basic:
		switch u.Kind() {
		case types.String:
			r = reflect.TypeOf("")
		case types.Bool:
			r = reflect.TypeOf(false)
		case types.Int:
			r = reflect.TypeOf(int(0))
		case types.Int64:
			r = reflect.TypeOf(int64(0))
		case types.Uint8:
			r = reflect.TypeOf(uint8(0))
		default:
			panic(pathAbort{"unsupported", "xml codec: basic type " + t.String()})
		}
	case *types.Pointer:
		r = reflect.PointerTo(i.reflectType(u.Elem(), seen))
	case *types.Slice:
		r = reflect.SliceOf(i.reflectType(u.Elem(), seen))
	case *types.Struct:
		var fields []reflect.StructField
		for _, f := range codecFields(u, nil) {
			fields = append(fields, reflect.StructField{
				Name:      f.name,
				Type:      i.reflectType(f.typ, seen),
				Tag:       reflect.StructTag(f.tag),
				Anonymous: f.anon,
			})
		}
		r = reflect.StructOf(fields)
	default:
		panic(pathAbort{"unsupported", "xml codec: type " + t.String()})
	}
	seen[t] = r
	return r
}

func (i *interpreter) toReflect(v value, t types.Type, rt reflect.Type) reflect.Value {
	if isNamed(t, "encoding/xml", "Name") {
		st := v.(structure)
		return reflect.ValueOf(xml.Name{Space: st[0].(string), Local: st[1].(string)})
	}
	switch u := t.Underlying().(type) {
	case *types.Basic:
		return reflect.ValueOf(v).Convert(rt)
	case *types.Pointer:
		p := v.(*value)
		if p == nil {
			return reflect.Zero(rt)
		}
		r := reflect.New(rt.Elem())
		r.Elem().Set(i.toReflect(*p, u.Elem(), rt.Elem()))
		return r
	case *types.Slice:
		l := v.([]value)
		if l == nil {
			return reflect.Zero(rt)
		}
		r := reflect.MakeSlice(rt, len(l), len(l))
		for k, e := range l {
			r.Index(k).Set(i.toReflect(e, u.Elem(), rt.Elem()))
		}
		return r
	case *types.Struct:
		st := v.(structure)
		r := reflect.New(rt).Elem()
		for j, f := range codecFields(u, nil) {
			r.Field(j).Set(i.toReflect(*fieldAt(st, f.path), f.typ, rt.Field(j).Type))
		}
		return r
	}
	panic(pathAbort{"unsupported", "xml codec: value of " + t.String()})
}

func (i *interpreter) fromReflect(r reflect.Value, t types.Type) value {
	if isNamed(t, "encoding/xml", "Name") {
		n := r.Interface().(xml.Name)
		return structure{n.Space, n.Local}
	}
	switch u := t.Underlying().(type) {
	case *types.Basic:
		switch u.Kind() {
		case types.String:
			return r.String()
		case types.Bool:
			return r.Bool()
		case types.Int:
			return int(r.Int())
		case types.Int64:
			return r.Int()
		case types.Uint8:
			return uint8(r.Uint())
		}
	case *types.Pointer:
		if r.IsNil() {
			return (*value)(nil)
		}
		var cell value = i.fromReflect(r.Elem(), u.Elem())
		return &cell
	case *types.Slice:
		if r.IsNil() {
			return []value(nil)
		}
		l := make([]value, r.Len())
		for k := range l {
			l[k] = i.fromReflect(r.Index(k), u.Elem())
		}
		return l
	case *types.Struct:
		st := zero(t).(structure)
		for j, f := range codecFields(u, nil) {
			*fieldAt(st, f.path) = i.fromReflect(r.Field(j), f.typ)
		}
		return st
	}
	panic(pathAbort{"unsupported", "xml codec: value of " + t.String()})
}

// deepHasSym follows pointers (acyclic data assumed, depth bounded).
func deepHasSym(v value, depth int) bool {
	if depth > 12 {
		return false
	}
	switch x := v.(type) {
	case *Sym, *Term:
		return true
	case *value:
		return x != nil && deepHasSym(*x, depth+1)
	case []value:
		for _, e := range x {
			if deepHasSym(e, depth+1) {
				return true
			}
		}
	case structure:
		for _, e := range x {
			if deepHasSym(e, depth+1) {
				return true
			}
		}
	case array:
		for _, e := range x {
			if deepHasSym(e, depth+1) {
				return true
			}
		}
	case iface:
		return deepHasSym(x.v, depth+1)
	}
	return false
}

func deepCopy(v value, depth int) value {
	if depth > 12 {
		return v
	}
	switch x := v.(type) {
	case *value:
		if x == nil {
			return x
		}
		var cell value = deepCopy(*x, depth+1)
		return &cell
	case []value:
		if x == nil {
			return x
		}
		l := make([]value, len(x))
		for k, e := range x {
			l[k] = deepCopy(e, depth+1)
		}
		return l
	case structure:
		l := make(structure, len(x))
		for k, e := range x {
			l[k] = deepCopy(e, depth+1)
		}
		return l
	case array:
		l := make(array, len(x))
		for k, e := range x {
			l[k] = deepCopy(e, depth+1)
		}
		return l
	case iface:
		return iface{x.t, deepCopy(x.v, depth+1)}
	}
	return v
}

// flatFields lists the fields of a struct type with promoted fields of
// embedded structs, as (name, index path).
type flatField struct {
	name string
	path []int
	typ  types.Type
}

func flatFields(st *types.Struct, prefix []int) []flatField {
	var out []flatField
	for k := 0; k < st.NumFields(); k++ {
		f := st.Field(k)
		p := append(append([]int{}, prefix...), k)
		if f.Embedded() {
			if es, ok := f.Type().Underlying().(*types.Struct); ok {
				out = append(out, flatFields(es, p)...)
				continue
			}
		}
		out = append(out, flatField{f.Name(), p, f.Type()})
	}
	return out
}

func fieldAt(st structure, path []int) *value {
	cur := st
	for k, idx := range path {
		if k == len(path)-1 {
			return &cur[idx]
		}
		cur = cur[idx].(structure)
	}
	return nil
}

// mergeBlob merges a stored value into *dst by field name.
func mergeBlob(dst *value, dt types.Type, src value, srcT types.Type) {
	// look through pointers on the source side
	for {
		p, ok := srcT.Underlying().(*types.Pointer)
		if !ok {
			break
		}
		sp := src.(*value)
		if sp == nil {
			return
		}
		src, srcT = *sp, p.Elem()
	}
	if dp, ok := dt.Underlying().(*types.Pointer); ok {
		p := (*dst).(*value)
		if p == nil {
			p = new(value)
			*p = zero(dp.Elem())
			*dst = p
		}
		mergeBlob(p, dp.Elem(), src, srcT)
		return
	}
	switch du := dt.Underlying().(type) {
	case *types.Struct:
		su, ok := srcT.Underlying().(*types.Struct)
		if !ok {
			return
		}
		dstS := (*dst).(structure)
		srcS := src.(structure)
		df := flatFields(du, nil)
		for _, sf := range flatFields(su, nil) {
			for _, f := range df {
				if f.name == sf.name {
					mergeBlob(fieldAt(dstS, f.path), f.typ, deepCopy(*fieldAt(srcS, sf.path), 0), sf.typ)
				}
			}
		}
	case *types.Slice:
		sl, _ := src.([]value)
		if len(sl) > 0 {
			cur, _ := (*dst).([]value)
			*dst = append(append([]value{}, cur...), sl...)
		}
	case *types.Basic:
		if s, ok := src.(string); ok && s == "" {
			return
		}
		*dst = src
	default:
		*dst = src
	}
}

func init() {
	intrinsics["encoding/xml.Marshal"] = func(fr *frame, args []value) value {
		it := args[0].(iface)
		if it.t == nil {
			return tuple{[]value(nil), fr.mkErr("xml: nil value")}
		}
		e := fr.i.ctx.env
		if deepHasSym(it.v, 0) {
			e.blobs = append(e.blobs, blobEntry{val: deepCopy(it.v, 0), typ: it.t})
			tok := "<blob>«blob:" + strconv.Itoa(len(e.blobs)-1) + "»</blob>"
			return tuple{bytesVal([]byte(tok)), iface{}}
		}
		rt := fr.i.reflectType(it.t, map[types.Type]reflect.Type{})
		rv := fr.i.toReflect(it.v, it.t, rt)
		// reflect-built struct types are anonymous: name the element like the real type
		name := ""
		nt := it.t
		if p, ok := nt.Underlying().(*types.Pointer); ok {
			nt = p.Elem()
		}
		if n, ok := nt.(*types.Named); ok {
			name = n.Obj().Name()
			if st, ok := n.Underlying().(*types.Struct); ok {
				for k := 0; k < st.NumFields(); k++ {
					if st.Field(k).Name() == "XMLName" {
						name = "" // element name comes from the XMLName field
					}
				}
			}
		}
		var buf strings.Builder
		enc := xml.NewEncoder(&buf)
		var err error
		if name != "" {
			err = enc.EncodeElement(rv.Interface(), xml.StartElement{Name: xml.Name{Local: name}})
		} else {
			err = enc.Encode(rv.Interface())
		}
		if err != nil {
			return tuple{[]value(nil), fr.errVal(err)}
		}
		enc.Flush()
		return tuple{bytesVal([]byte(buf.String())), iface{}}
	}
	intrinsics["encoding/xml.Unmarshal"] = func(fr *frame, args []value) value {
		e := fr.i.ctx.env
		it := args[1].(iface)
		p, ok := it.v.(*value)
		if !ok || p == nil {
			return fr.mkErr("non-pointer passed to Unmarshal")
		}
		elemT := mustDeref(it.t)
		// symbolic text: fork over the selector variables it depends on
		args[0] = fr.concretizeData(args[0])
		data := string(bytesOf(args[0]))
		if toks := blobTokenRE.FindAllStringSubmatch(data, -1); toks != nil {
			for _, m := range toks {
				n, _ := strconv.Atoi(m[1])
				if n >= len(e.blobs) {
					return fr.mkErr("xml: unknown blob")
				}
				b := e.blobs[n]
				mergeBlob(p, elemT, b.val, b.typ)
			}
			return iface{}
		}
		rt := fr.i.reflectType(elemT, map[types.Type]reflect.Type{})
		target := reflect.New(rt)
		// start from the current content (Unmarshal into a pre-filled value)
		func() {
			defer func() { recover() }()
			target.Elem().Set(fr.i.toReflect(*p, elemT, rt))
		}()
		err := xml.Unmarshal([]byte(data), target.Interface())
		store(elemT, p, fr.i.fromReflect(target.Elem(), elemT))
		fr.postXML(p, elemT, 0)
		if err != nil {
			return fr.errVal(err)
		}
		return iface{}
	}
}

var _ = fmt.Sprint
var _ = strings.Contains

// User-defined UnmarshalXML methods on ",any" fields (panos.OtherAttr,
// panos.RuleAttr): the real decoder calls the method once per unknown child
// element.  The stub decodes natively into the underlying []AnyHolder and then
// replays the elements through the interpreted method, with
// (*xml.Decoder).DecodeElement serving the element.
type vxmldec struct{ elem value }

func (fr *frame) postXML(cell *value, t types.Type, depth int) {
	if depth > 14 {
		return
	}
	switch u := t.Underlying().(type) {
	case *types.Pointer:
		p, _ := (*cell).(*value)
		if p != nil {
			fr.postXML(p, u.Elem(), depth+1)
		}
	case *types.Slice:
		if named, ok := t.(*types.Named); ok {
			if m := fr.i.findMethod(types.NewPointer(named), "UnmarshalXML"); m != nil && fr.i.interpretedFn(m) {
				l, _ := (*cell).([]value)
				*cell = []value(nil)
				startT := m.Signature.Params().At(1).Type()
				for _, e := range l {
					call(fr.i, fr, 0, m, []value{cell, native{&vxmldec{elem: e}}, zero(startT)})
				}
				return
			}
		}
		l, _ := (*cell).([]value)
		for k := range l {
			fr.postXML(&l[k], u.Elem(), depth+1)
		}
	case *types.Struct:
		st, ok := (*cell).(structure)
		if !ok {
			return
		}
		for k := 0; k < u.NumFields(); k++ {
			fr.postXML(&st[k], u.Field(k).Type(), depth+1)
		}
	}
}

func init() {
	intrinsics["(*encoding/xml.Decoder).DecodeElement"] = func(fr *frame, args []value) value {
		d := args[0].(native).v.(*vxmldec)
		it := args[1].(iface)
		p := it.v.(*value)
		et := mustDeref(it.t)
		if named, ok := et.(*types.Named); ok {
			if m := fr.i.findMethod(types.NewPointer(named), "UnmarshalXML"); m != nil && fr.i.interpretedFn(m) {
				return call(fr.i, fr, 0, m, []value{p, args[0], args[2]})
			}
		}
		if _, ok := et.Underlying().(*types.Slice); ok {
			cur, _ := (*p).([]value)
			*p = append(append([]value{}, cur...), deepCopy(d.elem, 0))
			return iface{}
		}
		store(et, p, deepCopy(d.elem, 0))
		return iface{}
	}
}
