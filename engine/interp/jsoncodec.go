package interp

// Structural encoding/json codec over interpreted values, driven by go/types
// struct tags.  Concrete values are serialised to real JSON text (compact,
// field order, sorted map keys, HTML escaping like encoding/json); values
// containing symbols become a Blob: a []byte of length one whose element is
// native{*jnode}.  Unmarshal accepts both.
//
// Contract assumed (part of every claim that uses it): Marshal is injective
// on the encoded fields and Unmarshal(Marshal(v)) == v.

import (
	"bytes"
	"encoding/json"
	"fmt"
	"go/types"
	"reflect"
	"sort"
	"strconv"
	"strings"
)

type jnode struct {
	k     byte // o a s n b z
	keys  []string
	vals  []*jnode
	elems []*jnode
	leaf  value // string | int64 | uint64 | float64 | json.Number | bool | *Sym | *Term
	raw   []byte
}

func (n *jnode) symbolic() bool {
	switch n.k {
	case 'o':
		for _, v := range n.vals {
			if v.symbolic() {
				return true
			}
		}
	case 'a':
		for _, v := range n.elems {
			if v.symbolic() {
				return true
			}
		}
	case 's', 'n', 'b':
		return hasSym(n.leaf)
	}
	return false
}

func blobOf(v value) *jnode {
	l, ok := v.([]value)
	if !ok || len(l) != 1 {
		return nil
	}
	n, ok := l[0].(native)
	if !ok {
		return nil
	}
	b, _ := n.v.(*jnode)
	return b
}

type jfield struct {
	name      string
	idx       int
	omitempty bool
	asString  bool
	typ       types.Type
	embedded  bool
}

func jsonFields(st *types.Struct) []jfield {
	var out []jfield
	for i := 0; i < st.NumFields(); i++ {
		f := st.Field(i)
		tag := reflect.StructTag(st.Tag(i)).Get("json")
		if tag == "-" {
			continue
		}
		name, opts, _ := strings.Cut(tag, ",")
		if !f.Exported() {
			continue
		}
		jf := jfield{name: name, idx: i, typ: f.Type()}
		if f.Embedded() && name == "" {
			jf.embedded = true
		}
		if name == "" {
			jf.name = f.Name()
		}
		for _, o := range strings.Split(opts, ",") {
			switch o {
			case "omitempty":
				jf.omitempty = true
			case "string":
				jf.asString = true
			}
		}
		out = append(out, jf)
	}
	return out
}

func isEmptyJSON(v value) bool {
	switch x := v.(type) {
	case bool:
		return !x
	case string:
		return x == ""
	case []value:
		return len(x) == 0
	case *omap:
		return x.len() == 0
	case *value:
		return x == nil
	case iface:
		return x.t == nil
	case int:
		return x == 0
	case int64:
		return x == 0
	case int32:
		return x == 0
	case int16:
		return x == 0
	case int8:
		return x == 0
	case uint:
		return x == 0
	case uint64:
		return x == 0
	case uint32:
		return x == 0
	case uint16:
		return x == 0
	case uint8:
		return x == 0
	case float64:
		return x == 0
	}
	return false
}

func (fr *frame) jsonEncode(v value, t types.Type) *jnode {
	// user-defined MarshalJSON (value or pointer receiver)
	if named, ok := t.(*types.Named); ok {
		if named.Obj().Pkg() != nil && named.Obj().Pkg().Path() == "encoding/json" && named.Obj().Name() == "RawMessage" {
			l := v.([]value)
			if l == nil {
				return &jnode{k: 'z'}
			}
			if b := blobOf(l); b != nil {
				return b
			}
			n, err := parseJSON(bytesOf(l))
			if err != nil {
				// as the native encoder: validity is checked by compacting the raw text
				var sink bytes.Buffer
				nerr := json.Compact(&sink, bytesOf(l))
				if nerr == nil {
					nerr = err
				}
				panic(jsonEncErr{fmt.Errorf("json: error calling MarshalJSON for type json.RawMessage: %v", nerr)})
			}
			return n
		}
	}
	if _, isPtr := t.Underlying().(*types.Pointer); !isPtr {
		if _, isIface := t.Underlying().(*types.Interface); !isIface {
			if m := fr.i.findMethod(t, "MarshalJSON"); m != nil && fr.i.interpretedFn(m) {
				return fr.callMarshalJSON(m, v)
			}
		}
	}
	switch u := t.Underlying().(type) {
	case *types.Pointer:
		p := v.(*value)
		if p == nil {
			return &jnode{k: 'z'}
		}
		if m := fr.i.findMethod(t, "MarshalJSON"); m != nil && fr.i.interpretedFn(m) {
			return fr.callMarshalJSON(m, v)
		}
		return fr.jsonEncode(load(u.Elem(), p), u.Elem())
	case *types.Interface:
		it := v.(iface)
		if it.t == nil {
			return &jnode{k: 'z'}
		}
		return fr.jsonEncode(it.v, it.t)
	case *types.Struct:
		n := &jnode{k: 'o'}
		st := v.(structure)
		for _, f := range jsonFields(u) {
			fv := st[f.idx]
			if f.embedded {
				if _, ok := f.typ.Underlying().(*types.Struct); ok {
					sub := fr.jsonEncode(fv, f.typ)
					n.keys = append(n.keys, sub.keys...)
					n.vals = append(n.vals, sub.vals...)
					continue
				}
			}
			if f.omitempty {
				if hasSym(fv) {
					empty := fr.lift([]value{fv}, func(a []value) value { return isEmptyJSON(a[0]) })
					if fr.branch(empty) {
						continue
					}
				} else if isEmptyJSON(fv) {
					continue
				}
			}
			n.keys = append(n.keys, f.name)
			n.vals = append(n.vals, fr.jsonEncode(fv, f.typ))
		}
		return n
	case *types.Slice:
		l := v.([]value)
		if l == nil {
			return &jnode{k: 'z'}
		}
		if b, ok := u.Elem().Underlying().(*types.Basic); ok && b.Kind() == types.Uint8 {
			panic(pathAbort{"unsupported", "json encoding of []byte"})
		}
		n := &jnode{k: 'a', elems: []*jnode{}}
		for _, e := range l {
			n.elems = append(n.elems, fr.jsonEncode(e, u.Elem()))
		}
		return n
	case *types.Array:
		n := &jnode{k: 'a', elems: []*jnode{}}
		for _, e := range v.(array) {
			n.elems = append(n.elems, fr.jsonEncode(e, u.Elem()))
		}
		return n
	case *types.Map:
		m := v.(*omap)
		if m == nil {
			return &jnode{k: 'z'}
		}
		n := &jnode{k: 'o'}
		type kv struct {
			k string
			v value
		}
		var l []kv
		for i, k := range m.keys {
			l = append(l, kv{fr.concreteString(k), m.vals[i]})
		}
		sort.Slice(l, func(i, j int) bool { return l[i].k < l[j].k })
		for _, e := range l {
			n.keys = append(n.keys, e.k)
			n.vals = append(n.vals, fr.jsonEncode(e.v, u.Elem()))
		}
		return n
	case *types.Basic:
		switch {
		case u.Info()&types.IsString != 0:
			return &jnode{k: 's', leaf: v}
		case u.Info()&types.IsBoolean != 0:
			return &jnode{k: 'b', leaf: v}
		case u.Info()&types.IsNumeric != 0:
			return &jnode{k: 'n', leaf: v}
		}
	}
	panic(pathAbort{"unsupported", "json encoding of " + t.String()})
}

func (fr *frame) callMarshalJSON(m value, recv value) *jnode {
	r := call(fr.i, fr, 0, m, []value{recv}).(tuple)
	if e := r[1].(iface); e.t != nil {
		panic(pathAbort{"unsupported", "MarshalJSON returned an error"})
	}
	if b := blobOf(r[0]); b != nil {
		return b
	}
	n, err := parseJSON(bytesOf(r[0]))
	if err != nil {
		panic(pathAbort{"unsupported", "MarshalJSON produced invalid JSON"})
	}
	return n
}

func writeJSONString(b *bytes.Buffer, s string) {
	// identical escaping to encoding/json with HTML escaping on
	var tmp bytes.Buffer
	enc := json.NewEncoder(&tmp)
	enc.Encode(s)
	b.Write(bytes.TrimRight(tmp.Bytes(), "\n"))
}

func (n *jnode) write(b *bytes.Buffer) {
	switch n.k {
	case 'z':
		b.WriteString("null")
	case 'o':
		b.WriteByte('{')
		for i, k := range n.keys {
			if i > 0 {
				b.WriteByte(',')
			}
			writeJSONString(b, k)
			b.WriteByte(':')
			n.vals[i].write(b)
		}
		b.WriteByte('}')
	case 'a':
		b.WriteByte('[')
		for i, e := range n.elems {
			if i > 0 {
				b.WriteByte(',')
			}
			e.write(b)
		}
		b.WriteByte(']')
	case 's':
		writeJSONString(b, n.leaf.(string))
	case 'b':
		if n.leaf.(bool) {
			b.WriteString("true")
		} else {
			b.WriteString("false")
		}
	case 'n':
		switch x := n.leaf.(type) {
		case json.Number:
			b.WriteString(string(x))
		case float64:
			t, _ := json.Marshal(x)
			b.Write(t)
		case float32:
			t, _ := json.Marshal(x)
			b.Write(t)
		default:
			if _, signed := widthOf(x); signed {
				b.WriteString(strconv.FormatInt(asInt64(x), 10))
			} else {
				b.WriteString(strconv.FormatUint(asUint64Any(x), 10))
			}
		}
	}
}

func parseJSON(data []byte) (*jnode, error) {
	dec := json.NewDecoder(bytes.NewReader(data))
	dec.UseNumber()
	n, err := parseJSONValue(dec)
	if err != nil {
		return nil, err
	}
	if _, err := dec.Token(); err == nil {
		return nil, fmt.Errorf("invalid character after top-level value")
	}
	// report syntax errors the way Unmarshal does: validate whole input
	if !json.Valid(data) {
		var x interface{}
		return nil, json.Unmarshal(data, &x)
	}
	return n, nil
}

func parseJSONValue(dec *json.Decoder) (*jnode, error) {
	tok, err := dec.Token()
	if err != nil {
		return nil, err
	}
	switch t := tok.(type) {
	case json.Delim:
		switch t {
		case '{':
			n := &jnode{k: 'o'}
			for dec.More() {
				kt, err := dec.Token()
				if err != nil {
					return nil, err
				}
				v, err := parseJSONValue(dec)
				if err != nil {
					return nil, err
				}
				n.keys = append(n.keys, kt.(string))
				n.vals = append(n.vals, v)
			}
			if _, err := dec.Token(); err != nil {
				return nil, err
			}
			return n, nil
		case '[':
			n := &jnode{k: 'a', elems: []*jnode{}}
			for dec.More() {
				v, err := parseJSONValue(dec)
				if err != nil {
					return nil, err
				}
				n.elems = append(n.elems, v)
			}
			if _, err := dec.Token(); err != nil {
				return nil, err
			}
			return n, nil
		}
	case string:
		return &jnode{k: 's', leaf: t}, nil
	case json.Number:
		return &jnode{k: 'n', leaf: t}, nil
	case bool:
		return &jnode{k: 'b', leaf: t}, nil
	case nil:
		return &jnode{k: 'z'}, nil
	}
	return nil, fmt.Errorf("unexpected token %v", tok)
}

type jsonEncErr struct{ err error }

// jsonMarshal implements json.Marshal(v any).
func (fr *frame) jsonMarshal(v value) value {
	it := v.(iface)
	var n *jnode
	if it.t == nil {
		n = &jnode{k: 'z'}
	} else {
		n = fr.jsonEncode(it.v, it.t)
	}
	if n.symbolic() {
		return []value{native{n}}
	}
	var b bytes.Buffer
	n.write(&b)
	return bytesVal(b.Bytes())
}

func numConv(leaf value, b *types.Basic) (value, bool) {
	var i64 int64
	var f64 float64
	isFloat := false
	switch x := leaf.(type) {
	case json.Number:
		if i, err := strconv.ParseInt(string(x), 10, 64); err == nil {
			i64 = i
		} else if u, err := strconv.ParseUint(string(x), 10, 64); err == nil {
			i64 = int64(u)
		} else if f, err := strconv.ParseFloat(string(x), 64); err == nil {
			f64 = f
			isFloat = true
		} else {
			return nil, false
		}
	case float64:
		f64 = x
		isFloat = true
	default:
		if w, _ := widthOf(x); w != 0 {
			i64 = asInt64(x)
		} else {
			return nil, false
		}
	}
	if isFloat {
		switch b.Kind() {
		case types.Float64:
			return f64, true
		case types.Float32:
			return float32(f64), true
		}
		return nil, false
	}
	switch b.Kind() {
	case types.Int:
		return int(i64), true
	case types.Int8:
		return int8(i64), true
	case types.Int16:
		return int16(i64), true
	case types.Int32:
		return int32(i64), true
	case types.Int64:
		return i64, true
	case types.Uint:
		return uint(i64), true
	case types.Uint8:
		return uint8(i64), true
	case types.Uint16:
		return uint16(i64), true
	case types.Uint32:
		return uint32(i64), true
	case types.Uint64:
		return uint64(i64), true
	case types.Float64:
		return float64(i64), true
	case types.Float32:
		return float32(i64), true
	}
	return nil, false
}

type jsonTypeErr struct{ msg string }

// jsonDecode stores node n into *addr of type t.  Type mismatches are
// reported like encoding/json (first error, decoding continues).
func (fr *frame) jsonDecode(n *jnode, t types.Type, addr *value, firstErr *string) {
	if named, ok := t.(*types.Named); ok {
		if named.Obj().Pkg() != nil && named.Obj().Pkg().Path() == "encoding/json" && named.Obj().Name() == "RawMessage" {
			if n.symbolic() {
				*addr = []value{native{n}}
			} else if n.raw != nil {
				*addr = bytesVal(n.raw)
			} else {
				var b bytes.Buffer
				n.write(&b)
				*addr = bytesVal(b.Bytes())
			}
			return
		}
	}
	if n.k == 'z' {
		switch t.Underlying().(type) {
		case *types.Pointer, *types.Slice, *types.Map, *types.Interface:
			*addr = zero(t)
		}
		return
	}
	mismatch := func(what string) {
		if *firstErr == "" {
			*firstErr = fmt.Sprintf("json: cannot unmarshal %s into Go value of type %s", what, types.TypeString(t, func(p *types.Package) string { return p.Name() }))
		}
	}
	kindName := map[byte]string{'o': "object", 'a': "array", 's': "string", 'n': "number", 'b': "bool"}[n.k]
	switch u := t.Underlying().(type) {
	case *types.Pointer:
		p := (*addr).(*value)
		if p == nil {
			p = new(value)
			*p = zero(u.Elem())
			*addr = p
		}
		fr.jsonDecode(n, u.Elem(), p, firstErr)
	case *types.Interface:
		*addr = fr.jsonGeneric(n)
	case *types.Struct:
		if n.k != 'o' {
			mismatch(kindName)
			return
		}
		st := (*addr).(structure)
		fields := jsonFields(u)
		for i, k := range n.keys {
			var hit *jfield
			for fi := range fields {
				if fields[fi].name == k {
					hit = &fields[fi]
					break
				}
			}
			if hit == nil {
				for fi := range fields {
					if strings.EqualFold(fields[fi].name, k) {
						hit = &fields[fi]
						break
					}
				}
			}
			if hit == nil {
				continue
			}
			fr.jsonDecode(n.vals[i], hit.typ, &st[hit.idx], firstErr)
		}
	case *types.Slice:
		if n.k != 'a' {
			mismatch(kindName)
			return
		}
		l := make([]value, len(n.elems))
		for i, e := range n.elems {
			l[i] = zero(u.Elem())
			fr.jsonDecode(e, u.Elem(), &l[i], firstErr)
		}
		*addr = l
	case *types.Map:
		if n.k != 'o' {
			mismatch(kindName)
			return
		}
		m, _ := (*addr).(*omap)
		if m == nil {
			m = makeMap(u.Key(), 0).(*omap)
			*addr = m
		}
		for i, k := range n.keys {
			var cell value = zero(u.Elem())
			fr.jsonDecode(n.vals[i], u.Elem(), &cell, firstErr)
			m.insert(fr, k, cell)
		}
	case *types.Basic:
		switch {
		case u.Info()&types.IsString != 0:
			if n.k != 's' {
				mismatch(kindName)
				return
			}
			*addr = n.leaf
		case u.Info()&types.IsBoolean != 0:
			if n.k != 'b' {
				mismatch(kindName)
				return
			}
			*addr = n.leaf
		case u.Info()&types.IsNumeric != 0:
			if n.k != 'n' {
				mismatch(kindName)
				return
			}
			if hasSym(n.leaf) {
				*addr = n.leaf
				return
			}
			v, ok := numConv(n.leaf, u)
			if !ok {
				mismatch("number " + toString(n.leaf))
				return
			}
			*addr = v
		}
	default:
		panic(pathAbort{"unsupported", "json decoding into " + t.String()})
	}
}

func (fr *frame) jsonGeneric(n *jnode) value {
	anyT := types.NewInterfaceType(nil, nil)
	switch n.k {
	case 'z':
		return iface{}
	case 's':
		return iface{types.Typ[types.String], n.leaf}
	case 'b':
		return iface{types.Typ[types.Bool], n.leaf}
	case 'n':
		v, _ := numConv(n.leaf, types.Typ[types.Float64])
		return iface{types.Typ[types.Float64], v}
	case 'a':
		l := make([]value, len(n.elems))
		for i, e := range n.elems {
			l[i] = fr.jsonGeneric(e)
		}
		return iface{types.NewSlice(anyT), l}
	case 'o':
		m := makeMap(types.Typ[types.String], 0).(*omap)
		for i, k := range n.keys {
			m.insert(fr, k, fr.jsonGeneric(n.vals[i]))
		}
		return iface{types.NewMap(types.Typ[types.String], anyT), m}
	}
	return iface{}
}

// jsonUnmarshal implements json.Unmarshal(data, v).
func (fr *frame) jsonUnmarshal(data value, v value) value {
	var n *jnode
	if b := blobOf(data); b != nil {
		n = b
	} else {
		// symbolic text: fork over the selector variables it depends on
		data = fr.concretizeData(data)
		var err error
		raw := bytesOf(data)
		n, err = parseJSON(raw)
		if err != nil {
			// use the message of the real decoder
			var x interface{}
			if e2 := json.Unmarshal(raw, &x); e2 != nil {
				err = e2
			}
			return fr.errVal(err)
		}
		attachRaw(n, raw)
	}
	it := v.(iface)
	p, ok := it.v.(*value)
	if !ok || p == nil {
		return fr.mkErr("json: Unmarshal(non-pointer or nil)")
	}
	firstErr := ""
	fr.jsonDecode(n, mustDeref(it.t), p, &firstErr)
	if firstErr != "" {
		return fr.mkErr(firstErr)
	}
	return iface{}
}

// attachRaw is a no-op placeholder: RawMessage values are re-serialised
// compactly; the repo only re-parses or forwards them.
func attachRaw(n *jnode, raw []byte) {}

// jsonEqual compares two encoded documents structurally.
func (fr *frame) jsonEqual(a, b *jnode) value {
	if a.k != b.k {
		return false
	}
	and := func(x, y value) value {
		if bx, ok := x.(bool); ok {
			if !bx {
				return false
			}
			return y
		}
		if by, ok := y.(bool); ok {
			if !by {
				return false
			}
			return x
		}
		return fr.lift([]value{x, y}, func(a []value) value { return a[0].(bool) && a[1].(bool) })
	}
	switch a.k {
	case 'z':
		return true
	case 'o':
		if len(a.keys) != len(b.keys) {
			return false
		}
		var r value = true
		for i := range a.keys {
			if a.keys[i] != b.keys[i] {
				return false
			}
			r = and(r, fr.jsonEqual(a.vals[i], b.vals[i]))
			if r == false {
				return false
			}
		}
		return r
	case 'a':
		if len(a.elems) != len(b.elems) {
			return false
		}
		var r value = true
		for i := range a.elems {
			r = and(r, fr.jsonEqual(a.elems[i], b.elems[i]))
			if r == false {
				return false
			}
		}
		return r
	}
	return symEquals(fr, nil, normNum(a.leaf), normNum(b.leaf))
}

func normNum(v value) value {
	if n, ok := v.(json.Number); ok {
		if i, err := strconv.ParseInt(string(n), 10, 64); err == nil {
			return int(i)
		}
		return string(n)
	}
	return v
}
