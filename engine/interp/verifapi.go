package interp

import (
	"fmt"
	"go/token"
)

func init() {
	verifAPI["verifInt"] = func(fr *frame, args []value) value {
		c := fr.i.ctx
		name := fr.concreteString(args[0])
		lo, hi := int(fr.concreteInt(args[1])), int(fr.concreteInt(args[2]))
		if r, ok := c.replayNext(name); ok {
			return int(toInt64(r))
		}
		if hi < lo {
			panic(pathAbort{"assume", "empty range for " + name})
		}
		if lo == hi {
			c.inputs = append(c.inputs, Input{Name: name, Kind: "int", Lo: lo, Const: true, CValue: lo})
			return lo
		}
		v := c.newVar(name, "int", hi-lo+1)
		v.lo = lo
		leaves := make([]value, v.n)
		for i := range leaves {
			leaves[i] = lo + i
		}
		c.inputs = append(c.inputs, Input{Name: name, Kind: "int", v: v, Lo: lo})
		return &Sym{vars: []*SVar{v}, leaves: leaves}
	}
	verifAPI["verifBool"] = func(fr *frame, args []value) value {
		c := fr.i.ctx
		name := fr.concreteString(args[0])
		if r, ok := c.replayNext(name); ok {
			return r.(bool)
		}
		v := c.newVar(name, "bool", 2)
		c.inputs = append(c.inputs, Input{Name: name, Kind: "bool", v: v})
		return &Sym{vars: []*SVar{v}, leaves: []value{false, true}}
	}
	verifAPI["verifPick"] = func(fr *frame, args []value) value {
		c := fr.i.ctx
		name := fr.concreteString(args[0])
		menu := args[1].([]value)
		if len(menu) == 0 {
			panic(pathAbort{"assume", "empty menu for " + name})
		}
		labels := make([]string, len(menu))
		for i, m := range menu {
			labels[i] = fr.concreteString(m)
		}
		if r, ok := c.replayNext(name); ok {
			return labels[int(toInt64(r))]
		}
		if len(menu) == 1 {
			c.inputs = append(c.inputs, Input{Name: name, Kind: "pick", Menu: labels, Const: true, CValue: 0})
			return labels[0]
		}
		v := c.newVar(name, "pick", len(menu))
		v.labels = labels
		leaves := make([]value, len(menu))
		for i := range leaves {
			leaves[i] = labels[i]
		}
		c.inputs = append(c.inputs, Input{Name: name, Kind: "pick", v: v, Menu: labels})
		return &Sym{vars: []*SVar{v}, leaves: leaves}
	}
	verifAPI["verifInt64"] = func(fr *frame, args []value) value {
		c := fr.i.ctx
		name := fr.concreteString(args[0])
		if r, ok := c.replayNext(name); ok {
			return toInt64(r)
		}
		t := c.newTermVar(name, 64)
		c.inputs = append(c.inputs, Input{Name: name, Kind: "int64", term: t.s})
		return t
	}
	verifAPI["verifAssume"] = func(fr *frame, args []value) value {
		if !fr.branchNoFork(args[0], true) {
			panic(pathAbort{"assume", "assumption false"})
		}
		return nil
	}
	verifAPI["verifAssert"] = func(fr *frame, args []value) value {
		fr.doAssert(args[0], fr.concreteString(args[1]))
		return nil
	}
	verifAPI["verifCover"] = func(fr *frame, args []value) value {
		fr.i.ctx.covers[fr.concreteString(args[0])] = true
		return nil
	}
	verifAPI["verifNote"] = func(fr *frame, args []value) value {
		c := fr.i.ctx
		if len(c.notes) < 200 {
			c.notes = append(c.notes, toString(fr.sprint(args[0], false)))
		}
		return nil
	}
	verifAPI["verifAssumption"] = func(fr *frame, args []value) value {
		fr.i.ctx.assumes[fr.concreteString(args[0])] = true
		return nil
	}
	verifAPI["verifSymbolic"] = func(fr *frame, args []value) value { return true }
	verifAPI["verifParam"] = func(fr *frame, args []value) value {
		name := fr.concreteString(args[0])
		if v, ok := fr.i.ctx.ex.opt.Params[name]; ok {
			return v
		}
		return fr.concreteString(args[1])
	}
	// verifFix forces a symbolic scalar to a concrete value by forking.
	verifAPI["verifFixString"] = func(fr *frame, args []value) value { return fr.concretize(args[0]) }
	verifAPI["verifFixInt"] = func(fr *frame, args []value) value { return fr.concretize(args[0]) }
	// verifIte builds an if-then-else value without forking.
	verifAPI["verifIteInt"] = func(fr *frame, args []value) value {
		if isTerm(args[0]) || isTerm(args[1]) || isTerm(args[2]) {
			c := fr.toTerm(args[0], nil)
			var like *Term
			if t, ok := args[1].(*Term); ok {
				like = t
			} else if t, ok := args[2].(*Term); ok {
				like = t
			}
			a := fr.toTerm(args[1], like)
			b := fr.toTerm(args[2], like)
			return &Term{s: "(ite " + c.s + " " + a.s + " " + b.s + ")", w: a.w, signed: a.signed}
		}
		return fr.lift(args, func(a []value) value {
			if a[0].(bool) {
				return a[1]
			}
			return a[2]
		})
	}
	verifAPI["verifIteString"] = verifAPI["verifIteInt"]
	verifAPI["verifIteBool"] = verifAPI["verifIteInt"]
	verifAPI["verifAnd"] = func(fr *frame, args []value) value {
		if b, ok := args[0].(bool); ok {
			if !b {
				return false
			}
			return args[1]
		}
		if b, ok := args[1].(bool); ok {
			if !b {
				return false
			}
			return args[0]
		}
		if isTerm(args[0]) || isTerm(args[1]) {
			return &Term{s: "(and " + fr.toTerm(args[0], nil).s + " " + fr.toTerm(args[1], nil).s + ")"}
		}
		return fr.lift(args, func(a []value) value { return a[0].(bool) && a[1].(bool) })
	}
	verifAPI["verifOr"] = func(fr *frame, args []value) value {
		if b, ok := args[0].(bool); ok {
			if b {
				return true
			}
			return args[1]
		}
		if b, ok := args[1].(bool); ok {
			if b {
				return true
			}
			return args[0]
		}
		if isTerm(args[0]) || isTerm(args[1]) {
			return &Term{s: "(or " + fr.toTerm(args[0], nil).s + " " + fr.toTerm(args[1], nil).s + ")"}
		}
		return fr.lift(args, func(a []value) value { return a[0].(bool) || a[1].(bool) })
	}
	verifAPI["verifNot"] = func(fr *frame, args []value) value { return fr.unopNot(args[0]) }
	verifAPI["verifEqInt"] = func(fr *frame, args []value) value {
		return fr.binop(token.EQL, nil, args[0], args[1])
	}
	verifAPI["verifEqString"] = verifAPI["verifEqInt"]
	verifAPI["verifTermInt"] = func(fr *frame, args []value) value {
		if _, ok := args[0].(*Sym); ok {
			return fr.toTerm(args[0], nil)
		}
		return args[0]
	}
	verifAPI["verifTermBool"] = verifAPI["verifTermInt"]
	sel := func(fr *frame, args []value) value {
		menu := args[1].([]value)
		return fr.lift([]value{args[0], menu}, func(a []value) value {
			return a[1].([]value)[asInt64(a[0])]
		})
	}
	verifAPI["verifSelectString"] = sel
	verifAPI["verifSelectInt"] = sel
	verifAPI["verifSelectBool"] = sel
	verifAPI["verifLookupString"] = func(fr *frame, args []value) value {
		return fr.lift(args, func(a []value) value {
			for i, m := range a[0].([]value) {
				if m.(string) == a[1].(string) {
					return i
				}
			}
			return -1
		})
	}
	verifAPI["verifHook"] = func(fr *frame, args []value) value {
		fr.i.ctx.env.hooks[fr.concreteString(args[0])] = args[1].(iface).v
		return nil
	}
	capture := func(std int) intrinsic {
		return func(fr *frame, args []value) value {
			e := fr.i.ctx.env
			get := func() *[]value {
				if std == 1 {
					return &e.stdout
				}
				return &e.stderr
			}
			n := len(*get())
			call(fr.i, fr, 0, args[0], nil)
			var acc value = ""
			for _, c := range (*get())[n:] {
				acc = fr.appendStr(acc, c)
			}
			return acc
		}
	}
	verifAPI["verifCaptureStdout"] = capture(1)
	verifAPI["verifCaptureStderr"] = capture(2)
	verifAPI["verifTempDir"] = func(fr *frame, args []value) value {
		e := fr.i.ctx.env
		e.nextFd++
		d := fmt.Sprintf("/vtmp/d%d", e.nextFd)
		e.mkdirAll(d)
		return d
	}
	verifAPI["verifBzip2"] = func(fr *frame, args []value) value {
		e := fr.i.ctx.env
		p := cleanPath(e, fr.concreteString(args[0]))
		n := e.files[p]
		if n == nil {
			panic("vf: bzip2 of missing file " + p)
		}
		delete(e.files, p)
		e.putNode(p+".bz2", n)
		return nil
	}
	// verifTryLock: true if nobody holds an exclusive flock on the file
	verifAPI["verifTryLock"] = func(fr *frame, args []value) value {
		e := fr.i.ctx.env
		return !e.locks[cleanPath(e, fr.concreteString(args[0]))]
	}
	verifAPI["verifHoldLock"] = func(fr *frame, args []value) value {
		e := fr.i.ctx.env
		e.locks[cleanPath(e, fr.concreteString(args[0]))] = true
		return nil
	}
	verifAPI["verifMapOrder"] = func(fr *frame, args []value) value {
		fr.i.ctx.mapOrder = int(fr.concreteInt(args[0]))
		return nil
	}
}

func toInt64(v interface{}) int64 {
	switch x := v.(type) {
	case int:
		return int64(x)
	case int64:
		return x
	case float64:
		return int64(x)
	case bool:
		if x {
			return 1
		}
		return 0
	}
	panic(fmt.Sprintf("toInt64 %T", v))
}

func (c *pathCtx) replayNext(name string) (interface{}, bool) {
	if c.replay == nil {
		return nil, false
	}
	if c.replayAt >= len(c.replay) {
		panic(pathAbort{"unsupported", "replay exhausted at " + name})
	}
	in := c.replay[c.replayAt]
	c.replayAt++
	if in.Name != name {
		panic(pathAbort{"unsupported", "replay mismatch: want " + in.Name + " got " + name})
	}
	return in.Value, true
}

// branchNoFork adds cond==want to the path condition; returns false if that
// is infeasible.
func (fr *frame) branchNoFork(cond value, want bool) bool {
	c := fr.i.ctx
	var smt string
	var sym *Sym
	switch x := cond.(type) {
	case bool:
		return x == want
	case *Sym:
		sym = x
		smt = c.symBoolToSMT(x)
		if smt == "true" {
			return want
		}
		if smt == "false" {
			return !want
		}
	case *Term:
		smt = x.s
	}
	if !want {
		smt = "(not " + smt + ")"
	}
	c.stats.SymBranches++
	if c.pos < len(c.prefix) {
		// feasibility was established when this path was first run
		ok := c.prefix[c.pos] == 1
		c.pos++
		c.decisions = append(c.decisions, c.prefix[c.pos-1])
		if !ok {
			return false
		}
	} else {
		c.pos++
		sat := false
		if sym != nil {
			if b, ok := c.evalModel(sym); ok && b == want {
				sat = true
			}
		}
		if !sat {
			ok, m := c.querySat(smt)
			if !ok {
				c.decisions = append(c.decisions, 0)
				return false
			}
			if m != nil {
				c.model, c.modelOK = m, true
			} else {
				c.modelOK = false
			}
		}
		c.decisions = append(c.decisions, 1)
	}
	if sym != nil {
		if b, ok := c.evalModel(sym); !ok || b != want {
			c.modelOK = false
		}
	} else {
		c.modelOK = false
	}
	c.assertPC(smt)
	if sym != nil {
		c.restrict(sym, want)
	}
	return true
}

// doAssert checks that cond holds on every input of the current path.
func (fr *frame) doAssert(cond value, label string) {
	c := fr.i.ctx
	if cl := classOf(label); cl != "" && len(c.ex.opt.Classes) > 0 {
		sel := false
		for _, x := range c.ex.opt.Classes {
			sel = sel || x == cl
		}
		if !sel {
			return
		}
	}
	var neg string
	switch x := cond.(type) {
	case bool:
		if x {
			return
		}
		neg = "true"
	case *Sym:
		s := c.symBoolToSMT(x)
		if s == "true" {
			return
		}
		neg = "(not " + s + ")"
	case *Term:
		neg = "(not " + x.s + ")"
	}
	c.stats.AssertQueries++
	if c.replay != nil {
		c.viol = append(c.viol, Violation{Kind: "assert", Label: label, Signature: "assert|" + label, Class: classOf(label)})
		panic(pathAbort{"assume", "assertion failed in replay"})
	}
	model, sat := c.fillModel(neg)
	if !sat {
		return
	}
	site := ""
	if fr.caller != nil {
		site = fr.caller.fn.String()
	}
	v := Violation{Kind: "assert", Label: label, Site: site, Inputs: model,
		Decisions: decString(c.decisions), Signature: "assert|" + label, Class: classOf(label)}
	c.viol = append(c.viol, v)
	// continue under the assumption that the assertion holds
	if !fr.branchNoFork(cond, true) {
		panic(pathAbort{"assume", "assertion violated on all inputs of the path"})
	}
}

// classOf: assertion labels start with the property id they belong to ("C08: ...").
func classOf(label string) string {
	if len(label) >= 3 && label[0] == 'C' && label[1] >= '0' && label[1] <= '9' {
		return label[:3]
	}
	return ""
}

func isTerm(v value) bool {
	_, ok := v.(*Term)
	return ok
}
