package interp

import (
	"fmt"
	"go/types"
	"os"
	"strings"
	"time"
)

func (fr *frame) pathArg(v value) string { return fr.concreteString(v) }

func (fr *frame) notExist(op, p string) value {
	t := types.NewPointer(fr.i.p.namedType("fmt", "wrapError"))
	var cell value = structure{op + " " + p + ": no such file or directory", fr.sentinelErr("io/fs.ErrNotExist", "file does not exist")}
	return iface{t: t, v: &cell}
}

// realNode loads a file from an allowed real directory into the VFS.
func (e *envState) realNode(p string) *vnode {
	p = cleanPath(e, p)
	for _, root := range e.c.ex.opt.RealRoots {
		if p == root || strings.HasPrefix(p, root+"/") {
			st, err := os.Stat(p)
			if err != nil {
				return nil
			}
			if st.IsDir() {
				n := &vnode{isDir: true}
				e.putNode(p, n)
				ents, _ := os.ReadDir(p)
				for _, en := range ents {
					e.realNode(p + "/" + en.Name())
				}
				return n
			}
			data, err := os.ReadFile(p)
			if err != nil {
				return nil
			}
			n := &vnode{data: bytesVal(data)}
			if data == nil || len(data) == 0 {
				n.data = []value{}
			}
			e.putNode(p, n)
			return n
		}
	}
	return nil
}

func (e *envState) getNode(p string) *vnode {
	if n := e.lookupNode(p); n != nil {
		return n
	}
	return e.realNode(p)
}

// nodeBytes returns the content of a node as a byte-slice value.
func (fr *frame) nodeBytes(n *vnode) value {
	if len(n.chunks) == 0 {
		if n.data == nil {
			return []value{}
		}
		return n.data
	}
	var acc value = ""
	if n.data != nil {
		if blobOf(n.data) != nil {
			panic(pathAbort{"unsupported", "append to blob file"})
		}
		acc = string(bytesOf(n.data))
	}
	for _, c := range n.chunks {
		acc = fr.appendStr(acc, c)
	}
	return fr.stringToBytes(acc)
}

func (fr *frame) newFile(n *vnode, name string, write bool) value {
	e := fr.i.ctx.env
	f := &vfile{node: n, name: name, fd: e.nextFd, write: write}
	e.fdPaths[f.fd] = n.path
	e.nextFd++
	var cell value = native{f}
	return &cell
}

func init() {
	intrinsics["os.ReadFile"] = func(fr *frame, args []value) value {
		e := fr.i.ctx.env
		p := fr.pathArg(args[0])
		n := e.getNode(p)
		if n == nil {
			return tuple{[]value(nil), fr.notExist("open", p)}
		}
		if n.isDir {
			return tuple{[]value(nil), fr.mkErr("read " + p + ": is a directory")}
		}
		if n.mode == 0o000 && n.data == nil && false {
			return tuple{[]value(nil), fr.mkErr("open " + p + ": permission denied")}
		}
		return tuple{fr.nodeBytes(n), iface{}}
	}
	intrinsics["os.WriteFile"] = func(fr *frame, args []value) value {
		e := fr.i.ctx.env
		p := fr.pathArg(args[0])
		if !e.dirExists(parentDir(cleanPath(e, p))) {
			return fr.notExist("open", p)
		}
		if f := e.fault("write:" + cleanPath(e, p)); f != "" {
			return fr.mkErr("open " + p + ": " + f)
		}
		n := e.lookupNode(p)
		if n == nil {
			n = &vnode{}
			e.putNode(p, n)
		}
		n.data = args[1]
		if l, ok := n.data.([]value); ok && l == nil {
			n.data = []value{}
		}
		n.chunks = nil
		e.events = append(e.events, sinkEvent{Kind: "writefile", Path: n.path, Data: args[1]})
		return iface{}
	}
	openFile := func(fr *frame, p string, flag int) value {
		e := fr.i.ctx.env
		if f := e.fault("open:" + cleanPath(e, p)); f != "" {
			return tuple{(*value)(nil), fr.mkErr("open " + p + ": " + f)}
		}
		n := e.getNode(p)
		if n == nil {
			if flag&os.O_CREATE == 0 {
				return tuple{(*value)(nil), fr.notExist("open", p)}
			}
			if !e.dirExists(parentDir(cleanPath(e, p))) {
				return tuple{(*value)(nil), fr.notExist("open", p)}
			}
			n = &vnode{data: []value{}}
			e.putNode(p, n)
			e.events = append(e.events, sinkEvent{Kind: "create", Path: n.path})
		} else if flag&os.O_TRUNC != 0 {
			n.data = []value{}
			n.chunks = nil
			e.events = append(e.events, sinkEvent{Kind: "truncate", Path: n.path})
		}
		return tuple{fr.newFile(n, p, flag&(os.O_WRONLY|os.O_RDWR) != 0), iface{}}
	}
	intrinsics["os.Open"] = func(fr *frame, args []value) value {
		return openFile(fr, fr.pathArg(args[0]), os.O_RDONLY)
	}
	intrinsics["os.Create"] = func(fr *frame, args []value) value {
		return openFile(fr, fr.pathArg(args[0]), os.O_RDWR|os.O_CREATE|os.O_TRUNC)
	}
	intrinsics["os.OpenFile"] = func(fr *frame, args []value) value {
		return openFile(fr, fr.pathArg(args[0]), int(fr.concreteInt(args[1])))
	}
	intrinsics["os.CreateTemp"] = func(fr *frame, args []value) value {
		e := fr.i.ctx.env
		dir := fr.pathArg(args[0])
		if dir == "" {
			dir = "/tmp"
			e.mkdirAll(dir)
		}
		pat := fr.pathArg(args[1])
		name := dir + "/" + strings.Replace(pat, "*", fmt.Sprintf("%d", e.nextFd), 1)
		if !strings.Contains(pat, "*") {
			name = dir + "/" + pat + fmt.Sprintf("%d", e.nextFd)
		}
		return openFile(fr, name, os.O_RDWR|os.O_CREATE|os.O_TRUNC)
	}
	intrinsics["(*os.File).Write"] = func(fr *frame, args []value) value {
		f := fileOf(args[0])
		if f == nil {
			return tuple{0, fr.mkErr("invalid argument")}
		}
		s := fr.lift([]value{args[1]}, func(a []value) value { return string(bytesOf(a[0])) })
		fr.fileWrite(f, s)
		return tuple{len(args[1].([]value)), iface{}}
	}
	intrinsics["(*os.File).WriteString"] = func(fr *frame, args []value) value {
		f := fileOf(args[0])
		if f == nil {
			return tuple{0, fr.mkErr("invalid argument")}
		}
		fr.fileWrite(f, args[1])
		return tuple{0, iface{}}
	}
	intrinsics["(*os.File).Close"] = func(fr *frame, args []value) value {
		f := fileOf(args[0])
		if f == nil {
			return fr.mkErr("invalid argument")
		}
		f.closed = true
		e := fr.i.ctx.env
		e.events = append(e.events, sinkEvent{Kind: "close", Path: f.name})
		if p, ok := e.lockFd[f.fd]; ok {
			delete(e.locks, p)
			delete(e.lockFd, f.fd)
		}
		return iface{}
	}
	intrinsics["(*os.File).Name"] = func(fr *frame, args []value) value {
		f := fileOf(args[0])
		if f == nil {
			panic("runtime error: invalid memory address or nil pointer dereference")
		}
		return f.name
	}
	intrinsics["(*os.File).Fd"] = func(fr *frame, args []value) value {
		f := fileOf(args[0])
		if f == nil {
			return ^uintptr(0)
		}
		return uintptr(f.fd)
	}
	intrinsics["(*os.File).Sync"] = func(fr *frame, args []value) value { return iface{} }
	intrinsics["os.Stat"] = func(fr *frame, args []value) value {
		e := fr.i.ctx.env
		p := fr.pathArg(args[0])
		n := e.getNode(p)
		if n == nil {
			return tuple{iface{}, fr.notExist("stat", p)}
		}
		return tuple{iface{t: types.Typ[types.String], v: "fileinfo:" + p}, iface{}}
	}
	intrinsics["os.Lstat"] = intrinsics["os.Stat"]
	intrinsics["os.Mkdir"] = func(fr *frame, args []value) value {
		e := fr.i.ctx.env
		p := fr.pathArg(args[0])
		if e.getNode(p) != nil {
			return fr.mkErr("mkdir " + p + ": file exists")
		}
		if !e.dirExists(parentDir(cleanPath(e, p))) {
			return fr.notExist("mkdir", p)
		}
		e.putNode(p, &vnode{isDir: true})
		e.events = append(e.events, sinkEvent{Kind: "mkdir", Path: cleanPath(e, p)})
		return iface{}
	}
	intrinsics["os.MkdirAll"] = func(fr *frame, args []value) value {
		e := fr.i.ctx.env
		p := fr.pathArg(args[0])
		if n := e.getNode(p); n != nil && !n.isDir {
			return fr.mkErr("mkdir " + p + ": not a directory")
		}
		e.mkdirAll(p)
		return iface{}
	}
	intrinsics["os.Rename"] = func(fr *frame, args []value) value {
		e := fr.i.ctx.env
		from, to := cleanPath(e, fr.pathArg(args[0])), cleanPath(e, fr.pathArg(args[1]))
		n := e.files[from]
		if n == nil {
			return fr.notExist("rename", from)
		}
		delete(e.files, from)
		e.putNode(to, n)
		// children of directories
		for q, c := range e.files {
			if strings.HasPrefix(q, from+"/") {
				delete(e.files, q)
				e.putNode(to+q[len(from):], c)
			}
		}
		e.events = append(e.events, sinkEvent{Kind: "rename", Path: from, Data: to})
		return iface{}
	}
	intrinsics["os.Remove"] = func(fr *frame, args []value) value {
		e := fr.i.ctx.env
		p := cleanPath(e, fr.pathArg(args[0]))
		if e.files[p] == nil {
			return fr.notExist("remove", p)
		}
		delete(e.files, p)
		e.events = append(e.events, sinkEvent{Kind: "remove", Path: p})
		return iface{}
	}
	intrinsics["os.RemoveAll"] = func(fr *frame, args []value) value {
		e := fr.i.ctx.env
		p := cleanPath(e, fr.pathArg(args[0]))
		for q := range e.files {
			if q == p || strings.HasPrefix(q, p+"/") {
				delete(e.files, q)
			}
		}
		e.events = append(e.events, sinkEvent{Kind: "removeall", Path: p})
		return iface{}
	}
	intrinsics["os.Symlink"] = func(fr *frame, args []value) value {
		e := fr.i.ctx.env
		e.putNode(fr.pathArg(args[1]), &vnode{symlink: fr.pathArg(args[0])})
		return iface{}
	}
	intrinsics["os.Getenv"] = func(fr *frame, args []value) value {
		return fr.i.ctx.env.envv[fr.concreteString(args[0])]
	}
	intrinsics["os.Setenv"] = func(fr *frame, args []value) value {
		fr.i.ctx.env.envv[fr.concreteString(args[0])] = fr.concreteString(args[1])
		return iface{}
	}
	intrinsics["os.Exit"] = func(fr *frame, args []value) value {
		panic(engineExit{int(fr.concreteInt(args[0]))})
	}
	intrinsics["os.UserHomeDir"] = func(fr *frame, args []value) value {
		e := fr.i.ctx.env
		if h, ok := e.envv["HOME"]; ok && h != "" {
			return tuple{h, iface{}}
		}
		return tuple{e.home, iface{}}
	}
	intrinsics["os.Getwd"] = func(fr *frame, args []value) value {
		return tuple{fr.i.ctx.env.cwd, iface{}}
	}
	intrinsics["os.Chdir"] = func(fr *frame, args []value) value {
		e := fr.i.ctx.env
		e.cwd = cleanPath(e, fr.pathArg(args[0]))
		return iface{}
	}
	intrinsics["path/filepath.EvalSymlinks"] = func(fr *frame, args []value) value {
		e := fr.i.ctx.env
		p := cleanPath(e, fr.pathArg(args[0]))
		n := e.getNode(p)
		if n == nil {
			return tuple{"", fr.notExist("lstat", p)}
		}
		return tuple{n.path, iface{}}
	}
	intrinsics["io.ReadAll"] = func(fr *frame, args []value) value {
		it := args[0].(iface)
		if f := fileOf(it.v); f != nil {
			return tuple{fr.nodeBytes(f.node), iface{}}
		}
		if n, ok := it.v.(native); ok {
			if r, ok := n.v.(*vreader); ok {
				if r.err != nil {
					// as the real io.ReadAll: what was read so far and the error
					return tuple{r.data, r.err}
				}
				return tuple{r.data, iface{}}
			}
		}
		panic(pathAbort{"unsupported", fmt.Sprintf("io.ReadAll of %v", it.t)})
	}
	intrinsics["compress/bzip2.NewReader"] = func(fr *frame, args []value) value {
		it := args[0].(iface)
		f := fileOf(it.v)
		if f == nil {
			panic(pathAbort{"unsupported", "bzip2 reader over non-file"})
		}
		// contract: files written by the harness as "compressed" hold the
		// plain content; round-trip of bzip2 is assumed.
		return iface{t: types.Typ[types.String], v: native{&vreader{data: fr.nodeBytes(f.node)}}}
	}
	intrinsics["syscall.Flock"] = func(fr *frame, args []value) value {
		e := fr.i.ctx.env
		fd := int(fr.concreteInt(args[0]))
		how := int(fr.concreteInt(args[1]))
		p := e.fdPaths[fd]
		e.events = append(e.events, sinkEvent{Kind: "flock", Path: p, Data: how})
		ok := true
		if h, found := e.hooks["flock"]; found {
			ok = fr.branch(call(fr.i, fr, 0, h, []value{p, how}))
		} else if e.locks[p] {
			ok = false
		}
		if !ok {
			return fr.mkErr("resource temporarily unavailable")
		}
		if how&2 != 0 && p != "" { // LOCK_EX
			e.locks[p] = true
			e.lockFd[fd] = p
		}
		return iface{}
	}

	// ---------------- encoding/json
	intrinsics["encoding/json.Marshal"] = func(fr *frame, args []value) value {
		var res value
		var encErr error
		func() {
			defer func() {
				if r := recover(); r != nil {
					if e, ok := r.(jsonEncErr); ok {
						encErr = e.err
						return
					}
					panic(r)
				}
			}()
			res = fr.jsonMarshal(args[0])
		}()
		if encErr != nil {
			return tuple{[]value(nil), fr.errVal(encErr)}
		}
		return tuple{res, iface{}}
	}
	intrinsics["encoding/json.Unmarshal"] = func(fr *frame, args []value) value {
		return fr.jsonUnmarshal(args[0], args[1])
	}
	intrinsics["encoding/json.Valid"] = func(fr *frame, args []value) value {
		if blobOf(args[0]) != nil {
			return true
		}
		_, err := parseJSON(bytesOf(args[0]))
		return err == nil
	}
	intrinsics["encoding/json.NewDecoder"] = func(fr *frame, args []value) value {
		return native{&jdecoder{src: args[0]}}
	}
	intrinsics["(*encoding/json.Decoder).Decode"] = func(fr *frame, args []value) value {
		d := args[0].(native).v.(*jdecoder)
		it := d.src.(iface)
		f := fileOf(it.v)
		if f == nil {
			panic(pathAbort{"unsupported", "json.Decoder over non-file"})
		}
		if d.used {
			return fr.sentinelErr("io.EOF", "EOF")
		}
		d.used = true
		data := fr.nodeBytes(f.node)
		if l, ok := data.([]value); ok && len(l) == 0 {
			return fr.sentinelErr("io.EOF", "EOF")
		}
		return fr.jsonUnmarshal(data, args[1])
	}

	// ---------------- time
	intrinsics["time.Now"] = func(fr *frame, args []value) value {
		e := fr.i.ctx.env
		if h, ok := e.hooks["now"]; ok {
			return native{vtime{call(fr.i, fr, 0, h, nil)}}
		}
		e.nclock++
		return native{vtime{int64(1_700_000_000 + e.nclock)}}
	}
	intrinsics["(time.Time).Unix"] = func(fr *frame, args []value) value {
		return args[0].(native).v.(vtime).unix
	}
	intrinsics["(time.Time).Format"] = func(fr *frame, args []value) value {
		t := args[0].(native).v.(vtime)
		return fr.lift([]value{t.unix, args[1]}, func(a []value) value {
			return time.Unix(a[0].(int64), 0).UTC().Format(a[1].(string))
		})
	}
	intrinsics["time.Parse"] = func(fr *frame, args []value) value {
		t, err := time.Parse(fr.concreteString(args[0]), fr.concreteString(args[1]))
		if err != nil {
			return tuple{native{vtime{int64(0)}}, fr.errVal(err)}
		}
		return tuple{native{vtime{t.Unix()}}, iface{}}
	}
}

type vtime struct{ unix value }

type vreader struct {
	data value
	err  value
}

type jdecoder struct {
	src  value
	used bool
}

// fault asks the harness-provided fault hook whether operation op fails.
func (e *envState) fault(op string) string { return "" }
