package interp

import (
	"math/bits"
	"strconv"
)

func (fr *frame) blobOrParse(v value) *jnode {
	if b := blobOf(v); b != nil {
		return b
	}
	n, err := parseJSON(bytesOf(v))
	if err != nil {
		return nil
	}
	return n
}

func init() {
	pureEqual := intrinsics["bytes.Equal"]
	intrinsics["bytes.Equal"] = func(fr *frame, args []value) value {
		if blobOf(args[0]) != nil || blobOf(args[1]) != nil {
			a, b := fr.blobOrParse(args[0]), fr.blobOrParse(args[1])
			if a == nil || b == nil {
				return false
			}
			return fr.jsonEqual(a, b)
		}
		return pureEqual(fr, args)
	}
	intrinsics["slices.overlaps"] = func(fr *frame, args []value) value { return false }
	intrinsics["(*bytes.Buffer).String"] = func(fr *frame, args []value) value {
		p, ok := args[0].(*value)
		if !ok || p == nil {
			return "<nil>"
		}
		return builderString((*p).(structure), 0)
	}
	intrinsics["(*bytes.Buffer).Len"] = func(fr *frame, args []value) value {
		s := builderString((*fr.ptr(args[0])).(structure), 0)
		return fr.lift([]value{s}, func(a []value) value { return len(a[0].(string)) })
	}
	intrinsics["(*bytes.Buffer).Bytes"] = func(fr *frame, args []value) value {
		return fr.stringToBytes(builderString((*fr.ptr(args[0])).(structure), 0))
	}
	intrinsics["(*bytes.Buffer).Reset"] = func(fr *frame, args []value) value {
		(*fr.ptr(args[0])).(structure)[0] = ""
		return nil
	}
	intrinsics["(*bytes.Buffer).WriteString"] = func(fr *frame, args []value) value {
		st := (*fr.ptr(args[0])).(structure)
		st[0] = fr.appendStr(builderString(st, 0), args[1])
		return tuple{0, iface{}}
	}
	intrinsics["(*bytes.Buffer).Write"] = func(fr *frame, args []value) value {
		st := (*fr.ptr(args[0])).(structure)
		b := fr.lift([]value{args[1]}, func(a []value) value { return string(bytesOf(a[0])) })
		st[0] = fr.appendStr(builderString(st, 0), b)
		return tuple{len(args[1].([]value)), iface{}}
	}
	intrinsics["(*bytes.Buffer).WriteByte"] = func(fr *frame, args []value) value {
		st := (*fr.ptr(args[0])).(structure)
		b := fr.lift([]value{args[1]}, func(a []value) value { return string([]byte{a[0].(uint8)}) })
		st[0] = fr.appendStr(builderString(st, 0), b)
		return iface{}
	}
	intrinsics["(*bytes.Buffer).WriteRune"] = func(fr *frame, args []value) value {
		st := (*fr.ptr(args[0])).(structure)
		b := fr.lift([]value{args[1]}, func(a []value) value { return string(a[0].(int32)) })
		st[0] = fr.appendStr(builderString(st, 0), b)
		return tuple{1, iface{}}
	}
	intrinsics["(sort.StringSlice).Sort"] = func(fr *frame, args []value) value {
		return intrinsics["sort.Strings"](fr, args)
	}
	intrinsics["sort.Sort"] = func(fr *frame, args []value) value {
		it := args[0].(iface)
		ln := fr.i.findMethod(it.t, "Len")
		less := fr.i.findMethod(it.t, "Less")
		swap := fr.i.findMethod(it.t, "Swap")
		n := int(fr.concreteInt(call(fr.i, fr, 0, ln, []value{it.v})))
		fr.insertionSort(n, func(i, j int) bool {
			return fr.branch(call(fr.i, fr, 0, less, []value{it.v, i, j}))
		}, func(i, j int) { call(fr.i, fr, 0, swap, []value{it.v, i, j}) })
		return nil
	}
	intrinsics["sort.Stable"] = intrinsics["sort.Sort"]
	pure("math/bits.Len", func(a []value) value { return bits.Len(a[0].(uint)) })
	pure("math/bits.Len64", func(a []value) value { return bits.Len64(a[0].(uint64)) })
	pure("math/bits.Len32", func(a []value) value { return bits.Len32(a[0].(uint32)) })
	pure("math/bits.TrailingZeros", func(a []value) value { return bits.TrailingZeros(a[0].(uint)) })
	pure("math/bits.OnesCount", func(a []value) value { return bits.OnesCount(a[0].(uint)) })
	pure("strconv.FormatBool", func(a []value) value { return strconv.FormatBool(a[0].(bool)) })
	intrinsics["strconv.ParseBool"] = func(fr *frame, args []value) value {
		r := fr.lift(args, func(a []value) value {
			b, err := strconv.ParseBool(a[0].(string))
			if err != nil {
				return tuple{b, err.Error()}
			}
			return tuple{b, ""}
		}).(tuple)
		return tuple{r[0], fr.optErr(r[1])}
	}
}
