// Copyright 2013 The Go Authors. All rights reserved.
// Use of this source code is governed by a BSD-style
// license that can be found in the LICENSE file.
//
// Derived from golang.org/x/tools/go/ssa/interp (v0.29.0); rewritten for
// gosx: symbolic values (Sym), ordered maps (omap), native opaque values.

package interp

// Values
//
// All interpreter values are "boxed" in the empty interface, value.
// The range of possible dynamic types within value are:
//
// - bool
// - numbers (all built-in int/float/complex types are distinguished)
// - string
// - *omap --- maps (insertion ordered, symbolic keys allowed)
// - []value --- slices
// - iface --- interfaces.
// - structure --- structs.  Fields are ordered and accessed by numeric indices.
// - array --- arrays.
// - *value --- pointers.  Careful: *value is a distinct type from *array etc.
// - *ssa.Function \
//   *ssa.Builtin   } --- functions.  A nil 'func' is always of type *ssa.Function.
//   *closure      /
// - tuple --- as returned by Return, Next, "value,ok" modes, etc.
// - iter --- iterators from 'range' over map or string.
// - bad --- a poison pill for locals that have gone out of scope.
// - **deferred -- the address of a frame's defer stack for a Defer._Stack.
// - *Sym --- finite-domain symbolic scalar (table of leaves over selector vars)
// - *Term --- bit-vector / bool SMT term
// - native --- opaque value of the engine's own process (regexp, netip.Addr, error, ...)

import (
	"bytes"
	"fmt"
	"go/types"
	"io"
	"strings"

	"golang.org/x/tools/go/ssa"
)

type value interface{}

type tuple []value

type array []value

type iface struct {
	t types.Type // never an "untyped" type
	v value
}

type structure []value

// native wraps a value that lives in the engine's own process.
type native struct {
	v interface{}
}

// For map, array, *array, slice, string or channel.
type iter interface {
	// next returns a Tuple (key, value, ok).
	// key and value are unaliased, e.g. copies of the sequence element.
	next(fr *frame) tuple
}

type closure struct {
	Fn  *ssa.Function
	Env []value
}

type bad struct{}

// nil-tolerant variant of types.Identical.
func sameType(x, y types.Type) bool {
	if x == nil {
		return y == nil
	}
	return y != nil && types.Identical(x, y)
}

func safeEq(x, y interface{}) (r bool) {
	defer func() {
		if recover() != nil {
			r = false
		}
	}()
	return x == y
}

// equals returns true iff x and y are equal according to Go's
// linguistic equivalence relation for type t.
// Both must be concrete (no Sym inside); see symEquals for the general case.
func equals(t types.Type, x, y value) bool {
	switch x := x.(type) {
	case bool:
		return x == y.(bool)
	case int:
		return x == y.(int)
	case int8:
		return x == y.(int8)
	case int16:
		return x == y.(int16)
	case int32:
		return x == y.(int32)
	case int64:
		return x == y.(int64)
	case uint:
		return x == y.(uint)
	case uint8:
		return x == y.(uint8)
	case uint16:
		return x == y.(uint16)
	case uint32:
		return x == y.(uint32)
	case uint64:
		return x == y.(uint64)
	case uintptr:
		return x == y.(uintptr)
	case float32:
		return x == y.(float32)
	case float64:
		return x == y.(float64)
	case complex64:
		return x == y.(complex64)
	case complex128:
		return x == y.(complex128)
	case string:
		return x == y.(string)
	case *value:
		return x == y.(*value)
	case structure:
		y := y.(structure)
		for i := range x {
			if !equals(nil, x[i], y[i]) {
				return false
			}
		}
		return true
	case array:
		y := y.(array)
		for i := range x {
			if !equals(nil, x[i], y[i]) {
				return false
			}
		}
		return true
	case iface:
		y := y.(iface)
		return sameType(x.t, y.t) && (x.t == nil || equals(x.t, x.v, y.v))
	case native:
		y, ok := y.(native)
		return ok && safeEq(x.v, y.v)
	case *omap:
		return x == y.(*omap)
	case *ssa.Function:
		y, ok := y.(*ssa.Function)
		return ok && x == y
	case *closure:
		y, ok := y.(*closure)
		return ok && x == y
	}

	// Since map, func and slice don't support comparison, this
	// case is only reachable if one of x or y is literally nil
	// (handled in eqnil) or via interface{} values.
	panic(fmt.Sprintf("comparing uncomparable type %s (%T)", t, x))
}

// load returns the value of type T in *addr.
func load(T types.Type, addr *value) value {
	switch T := T.Underlying().(type) {
	case *types.Struct:
		v, ok := (*addr).(structure)
		if !ok {
			return *addr // native opaque struct
		}
		a := make(structure, len(v))
		for i := range a {
			a[i] = load(T.Field(i).Type(), &v[i])
		}
		return a
	case *types.Array:
		v := (*addr).(array)
		a := make(array, len(v))
		for i := range a {
			a[i] = load(T.Elem(), &v[i])
		}
		return a
	default:
		return *addr
	}
}

// store stores value v of type T into *addr.
func store(T types.Type, addr *value, v value) {
	switch T := T.Underlying().(type) {
	case *types.Struct:
		lhs, ok1 := (*addr).(structure)
		rhs, ok2 := v.(structure)
		if !ok1 || !ok2 {
			*addr = v // native opaque struct
			return
		}
		for i := range lhs {
			store(T.Field(i).Type(), &lhs[i], rhs[i])
		}
	case *types.Array:
		lhs := (*addr).(array)
		rhs := v.(array)
		for i := range lhs {
			store(T.Elem(), &lhs[i], rhs[i])
		}
	default:
		*addr = v
	}
}

// Prints in the style of built-in println.
func writeValue(buf *bytes.Buffer, v value) {
	switch v := v.(type) {
	case nil, bool, int, int8, int16, int32, int64, uint, uint8, uint16, uint32, uint64, uintptr, float32, float64, complex64, complex128, string:
		fmt.Fprintf(buf, "%v", v)

	case *omap:
		buf.WriteString("map[")
		if v != nil {
			for i, k := range v.keys {
				if i > 0 {
					buf.WriteString(" ")
				}
				writeValue(buf, k)
				buf.WriteString(":")
				writeValue(buf, v.vals[i])
			}
		}
		buf.WriteString("]")

	case *Sym:
		buf.WriteString(v.String())

	case *Term:
		buf.WriteString("<term " + v.s + ">")

	case native:
		fmt.Fprintf(buf, "%v", v.v)

	case *value:
		if v == nil {
			buf.WriteString("<nil>")
		} else {
			fmt.Fprintf(buf, "%p", v)
		}

	case iface:
		fmt.Fprintf(buf, "(%s, ", v.t)
		writeValue(buf, v.v)
		buf.WriteString(")")

	case structure:
		buf.WriteString("{")
		for i, e := range v {
			if i > 0 {
				buf.WriteString(" ")
			}
			writeValue(buf, e)
		}
		buf.WriteString("}")

	case array:
		buf.WriteString("[")
		for i, e := range v {
			if i > 0 {
				buf.WriteString(" ")
			}
			writeValue(buf, e)
		}
		buf.WriteString("]")

	case []value:
		buf.WriteString("[")
		for i, e := range v {
			if i > 0 {
				buf.WriteString(" ")
			}
			writeValue(buf, e)
		}
		buf.WriteString("]")

	case *ssa.Function, *ssa.Builtin, *closure:
		fmt.Fprintf(buf, "%p", v) // (an address)

	case tuple:
		// Unreachable in well-formed Go programs
		buf.WriteString("(")
		for i, e := range v {
			if i > 0 {
				buf.WriteString(", ")
			}
			writeValue(buf, e)
		}
		buf.WriteString(")")

	default:
		fmt.Fprintf(buf, "<%T>", v)
	}
}

// Implements printing of Go values in the style of built-in println.
func toString(v value) string {
	var b bytes.Buffer
	writeValue(&b, v)
	return b.String()
}

// ------------------------------------------------------------------------
// Iterators

type stringIter struct {
	*strings.Reader
	i int
}

func (it *stringIter) next(fr *frame) tuple {
	okv := make(tuple, 3)
	ch, n, err := it.ReadRune()
	ok := err != io.EOF
	okv[0] = ok
	if ok {
		okv[1] = it.i
		okv[2] = ch
	}
	it.i += n
	return okv
}

// ------------------------------------------------------------------------
// Ordered maps.
//
// Keys are kept in insertion order so that iteration is deterministic
// (a requirement of decision-prefix replay) and so that the iteration
// schedule can be made a parameter (C16).  Keys may be symbolic; lookups
// then branch on the equality pattern.

type omap struct {
	keyType types.Type
	keys    []value
	vals    []value
	idx     map[interface{}]int // fast index for concrete basic keys; nil when stale
	nsym    int                 // number of keys that contain symbols
}

func makeMap(kt types.Type, reserve int64) value {
	return &omap{keyType: kt}
}

func fastKey(k value) bool {
	switch k.(type) {
	case bool, int, int8, int16, int32, int64, uint, uint8, uint16, uint32, uint64, uintptr, string, *value, float64, float32:
		return true
	}
	return false
}

func (m *omap) reindex() {
	m.idx = make(map[interface{}]int, len(m.keys))
	for i, k := range m.keys {
		if fastKey(k) {
			m.idx[k] = i
		}
	}
}

// find returns the position of key k or -1.
func (m *omap) find(fr *frame, k value) int {
	if m == nil {
		return -1
	}
	if fastKey(k) && m.nsym == 0 {
		if m.idx == nil {
			m.reindex()
		}
		if i, ok := m.idx[k]; ok {
			return i
		}
		// keys of other representation (e.g. structure) cannot equal a fast key
		return -1
	}
	for i, k2 := range m.keys {
		if fr.branch(symEquals(fr, m.keyType, k2, k)) {
			return i
		}
	}
	return -1
}

func (m *omap) lookup(fr *frame, k value) (value, bool) {
	i := m.find(fr, k)
	if i < 0 {
		return nil, false
	}
	return m.vals[i], true
}

func (m *omap) insert(fr *frame, k, v value) {
	i := m.find(fr, k)
	if i >= 0 {
		m.vals[i] = v
		return
	}
	m.keys = append(m.keys, k)
	m.vals = append(m.vals, v)
	if hasSym(k) {
		m.nsym++
	}
	if m.idx != nil && fastKey(k) {
		m.idx[k] = len(m.keys) - 1
	}
}

func (m *omap) delete(fr *frame, k value) {
	i := m.find(fr, k)
	if i < 0 {
		return
	}
	if hasSym(m.keys[i]) {
		m.nsym--
	}
	m.keys = append(m.keys[:i:i], m.keys[i+1:]...)
	m.vals = append(m.vals[:i:i], m.vals[i+1:]...)
	m.idx = nil
}

func (m *omap) len() int {
	if m == nil {
		return 0
	}
	return len(m.keys)
}

type omapIter struct {
	m    *omap
	keys []value // snapshot in schedule order
	i    int
}

func (it *omapIter) next(fr *frame) tuple {
	for it.i < len(it.keys) {
		k := it.keys[it.i]
		it.i++
		// skip entries deleted since the snapshot
		for j, k2 := range it.m.keys {
			if sameKeyIdentity(k2, k) {
				return tuple{true, k, it.m.vals[j]}
			}
		}
	}
	return tuple{false, nil, nil}
}

// sameKeyIdentity: identity of stored key objects (no symbolic reasoning:
// the snapshot holds the very same key values).
func sameKeyIdentity(a, b value) bool {
	switch a := a.(type) {
	case *Sym:
		b, ok := b.(*Sym)
		return ok && a == b
	case *Term:
		b, ok := b.(*Term)
		return ok && a == b
	case structure:
		b, ok := b.(structure)
		if !ok || len(a) != len(b) {
			return false
		}
		for i := range a {
			if !sameKeyIdentity(a[i], b[i]) {
				return false
			}
		}
		return true
	case array:
		b, ok := b.(array)
		if !ok || len(a) != len(b) {
			return false
		}
		for i := range a {
			if !sameKeyIdentity(a[i], b[i]) {
				return false
			}
		}
		return true
	case iface:
		b, ok := b.(iface)
		return ok && sameType(a.t, b.t) && sameKeyIdentity(a.v, b.v)
	}
	return safeEq(a, b)
}
