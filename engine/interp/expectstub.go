package interp

// Stubs for github.com/tailscale/goexpect: forwarded to harness-side hooks
// "expect.spawn", "expect.send", "expect.expect" (a device simulator written
// in Go that is itself symbolically executed).

type vexpect struct{ closed bool }

const gx = "github.com/tailscale/goexpect"

func init() {
	intrinsics[gx+".PartialMatch"] = func(fr *frame, args []value) value { return (*closure)(nil) }
	intrinsics[gx+".SpawnWithArgs"] = func(fr *frame, args []value) value {
		e := fr.i.ctx.env
		e.events = append(e.events, sinkEvent{Kind: "spawn", Data: args[0]})
		var nilChan value = nil
		if h, ok := e.hooks["expect.spawn"]; ok {
			msg := call(fr.i, fr, 0, h, []value{args[0]})
			if s, isStr := msg.(string); !isStr || s != "" {
				return tuple{(*value)(nil), nilChan, fr.optErr(msg)}
			}
		} else if _, ok := e.hooks["expect.send"]; !ok {
			return tuple{(*value)(nil), nilChan, fr.mkErr("spawn: no device simulator registered")}
		}
		return tuple{native{&vexpect{}}, nilChan, iface{}}
	}
	intrinsics["(*"+gx+".GExpect).Send"] = func(fr *frame, args []value) value {
		e := fr.i.ctx.env
		e.events = append(e.events, sinkEvent{Kind: "send", Data: args[1]})
		h, ok := e.hooks["expect.send"]
		if !ok {
			panic(pathAbort{"unsupported", "no expect.send hook"})
		}
		return fr.optErr(call(fr.i, fr, 0, h, []value{args[1]}))
	}
	intrinsics["(*"+gx+".GExpect).Expect"] = func(fr *frame, args []value) value {
		e := fr.i.ctx.env
		h, ok := e.hooks["expect.expect"]
		if !ok {
			panic(pathAbort{"unsupported", "no expect.expect hook"})
		}
		re := args[1].(native).v
		reStr := ""
		if r, ok := re.(interface{ String() string }); ok {
			reStr = r.String()
		}
		r := call(fr.i, fr, 0, h, []value{reStr, args[2]}).(tuple)
		return tuple{r[0], []value(nil), fr.optErr(r[1])}
	}
	intrinsics["(*"+gx+".GExpect).Close"] = func(fr *frame, args []value) value { return iface{} }
}

// os/exec: commands are recorded, never run.
type vcmd struct{ args []string }

func (c *vcmd) String() string {
	s := ""
	for i, a := range c.args {
		if i > 0 {
			s += " "
		}
		s += a
	}
	return s
}

func init() {
	intrinsics["os/exec.Command"] = func(fr *frame, args []value) value {
		l := []string{fr.concreteString(args[0])}
		for _, a := range args[1].([]value) {
			l = append(l, toString(a))
		}
		return native{&vcmd{l}}
	}
	intrinsics["(*os/exec.Cmd).Run"] = func(fr *frame, args []value) value {
		e := fr.i.ctx.env
		c := args[0].(native).v.(*vcmd)
		e.events = append(e.events, sinkEvent{Kind: "exec", Data: c.String()})
		if h, ok := e.hooks["exec.run"]; ok {
			return fr.optErr(call(fr.i, fr, 0, h, []value{c.String()}))
		}
		return iface{}
	}
	intrinsics["(*os/exec.Cmd).String"] = func(fr *frame, args []value) value {
		return args[0].(native).v.(*vcmd).String()
	}
}
