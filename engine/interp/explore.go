package interp

// Path exploration by stateless re-execution with decision prefixes,
// one long-lived SMT solver process per worker.

import (
	"bufio"
	"fmt"
	"io"
	"os/exec"
	"regexp"
	"sort"
	"strconv"
	"strings"
	"sync"
	"time"
)

type pathAbort struct{ kind, msg string }

func (p pathAbort) String() string { return p.kind + ": " + p.msg }

type Stats struct {
	Paths           int64
	Completed       int64
	AssumeEnded     int64
	Infeasible      int64
	Unsupported     int64
	LimitHit        int64
	Panicked        int64
	Violations      int64
	Forks           int64
	SymBranches     int64
	MaskDecided     int64
	SolverQueries   int64
	SolverNs        int64
	SolverMaxNs     int64
	Concretisations int64
	LiftRows        int64
	Steps           int64
	AssertQueries   int64
	Unknown         int64
}

func (s *Stats) add(o *Stats) {
	s.Paths += o.Paths
	s.Completed += o.Completed
	s.AssumeEnded += o.AssumeEnded
	s.Infeasible += o.Infeasible
	s.Unsupported += o.Unsupported
	s.LimitHit += o.LimitHit
	s.Panicked += o.Panicked
	s.Violations += o.Violations
	s.Forks += o.Forks
	s.SymBranches += o.SymBranches
	s.MaskDecided += o.MaskDecided
	s.SolverQueries += o.SolverQueries
	s.SolverNs += o.SolverNs
	if o.SolverMaxNs > s.SolverMaxNs {
		s.SolverMaxNs = o.SolverMaxNs
	}
	s.Concretisations += o.Concretisations
	s.LiftRows += o.LiftRows
	s.Steps += o.Steps
	s.AssertQueries += o.AssertQueries
	s.Unknown += o.Unknown
}

// Input describes one verif* call of a path.
type Input struct {
	Name   string
	Kind   string // int, bool, pick, int64
	v      *SVar
	term   string
	Menu   []string `json:",omitempty"`
	Lo     int
	Value  interface{} // filled from a model
	Const  bool        // domain of size one
	CValue interface{}
}

type Violation struct {
	Kind      string // assert | panic
	Label     string
	Message   string
	Site      string
	Stack     []string
	Signature string
	Inputs    []Input
	Decisions string
	Class     string
	Extra     map[string]string `json:",omitempty"`
}

type PathSample struct {
	Decisions string
	End       string
	Inputs    []Input
	Covers    []string
	Notes     []string `json:",omitempty"`
	Stdout    string   `json:",omitempty"`
	Stderr    string   `json:",omitempty"`
	Panic     string   `json:",omitempty"`
}

type Options struct {
	Workers       int
	MaxPaths      int64
	MaxSteps      int64
	SolverTimeout int // ms
	SolverCmd     []string
	Samples       int
	MapOrder      int
	Verbose       bool
	StopOnFirst   bool
	// Classes: if not empty, only assertions whose label starts with one of
	// these property ids are checked; all others are skipped (neither
	// checked nor assumed)
	Classes    []string
	Params     map[string]string
	Replay     []Input // concrete replay of inputs (no solver)
	RealRoots  []string
	Args       []string
	KeepOutput bool
}

type Result struct {
	Stats        Stats
	Violations   []Violation
	Covers       map[string]int64
	CoverModel   map[string][]Input
	Samples      []PathSample
	Unsupported  map[string]int64
	Inconclusive []string
	FuncsEntered map[string]int64
	WallS        float64
	Assumptions  map[string]bool
}

type Explorer struct {
	prog  *Program
	entry string
	opt   Options

	mu      sync.Mutex
	cond    *sync.Cond
	work    [][]byte
	active  int
	stopped bool
	res     Result
	sigSeen map[string]bool
}

// ---------------------------------------------------------------------------
// solver

type solver struct {
	cmd     *exec.Cmd
	in      io.WriteCloser
	out     *bufio.Reader
	timeout int
	log     io.Writer
}

func newSolver(argv []string, timeoutMs int) (*solver, error) {
	cmd := exec.Command(argv[0], argv[1:]...)
	in, err := cmd.StdinPipe()
	if err != nil {
		return nil, err
	}
	out, err := cmd.StdoutPipe()
	if err != nil {
		return nil, err
	}
	if err := cmd.Start(); err != nil {
		return nil, err
	}
	s := &solver{cmd: cmd, in: in, out: bufio.NewReaderSize(out, 1<<16), timeout: timeoutMs}
	return s, nil
}

func (s *solver) send(t string) {
	if s.log != nil {
		io.WriteString(s.log, t)
	}
	io.WriteString(s.in, t)
}

func (s *solver) reset() {
	s.send("(reset)\n(set-option :print-success false)\n")
	if strings.Contains(s.cmd.Path, "z3") {
		s.send(fmt.Sprintf("(set-option :timeout %d)\n", s.timeout))
	}
}

func (s *solver) readLine() string {
	l, err := s.out.ReadString('\n')
	if err != nil {
		return "(error \"solver died: " + err.Error() + "\")"
	}
	return strings.TrimSpace(l)
}

// check returns "sat", "unsat", or something else (unknown / error).
func (s *solver) check(assertion string) string {
	s.send("(push)\n(assert " + assertion + ")\n(check-sat)\n(pop)\n")
	return s.readLine()
}

var modelRe = regexp.MustCompile(`\((\w+) (#x[0-9a-fA-F]+|#b[01]+|true|false)\)`)

// model returns sat/unsat and values for the names.
func (s *solver) model(assertion string, names []string) (string, map[string]uint64) {
	if len(names) == 0 {
		return s.check(assertion), nil
	}
	s.send("(push)\n(assert " + assertion + ")\n(check-sat)\n")
	r := s.readLine()
	if r != "sat" {
		s.send("(pop)\n")
		return r, nil
	}
	s.send("(get-value (" + strings.Join(names, " ") + "))\n(pop)\n")
	// read until parentheses balance
	var b strings.Builder
	depth := 0
	started := false
	for {
		l := s.readLine()
		b.WriteString(l)
		b.WriteString(" ")
		for _, ch := range l {
			if ch == '(' {
				depth++
				started = true
			} else if ch == ')' {
				depth--
			}
		}
		if started && depth <= 0 {
			break
		}
		if strings.HasPrefix(l, "(error") {
			return l, nil
		}
	}
	m := map[string]uint64{}
	for _, g := range modelRe.FindAllStringSubmatch(b.String(), -1) {
		v := g[2]
		var x uint64
		switch {
		case strings.HasPrefix(v, "#x"):
			x, _ = strconv.ParseUint(v[2:], 16, 64)
		case strings.HasPrefix(v, "#b"):
			x, _ = strconv.ParseUint(v[2:], 2, 64)
		case v == "true":
			x = 1
		}
		m[g[1]] = x
	}
	return "sat", m
}

func (s *solver) close() {
	s.in.Close()
	s.cmd.Process.Kill()
	s.cmd.Wait()
}

// ---------------------------------------------------------------------------
// per-path context

type pathCtx struct {
	ex        *Explorer
	prefix    []byte
	decisions []byte
	pos       int
	solver    *solver
	vars      []*SVar
	masks     []uint64
	nterms    int
	steps     int64
	stats     Stats
	inputs    []Input
	covers    map[string]bool
	notes     []string
	viol      []Violation
	assumes   map[string]bool

	model   []int // a satisfying assignment of the path condition (selector vars), if modelOK
	modelOK bool

	lastRecMsg   string
	lastRecSite  string
	lastRecStack []string

	panicking  bool
	panicSite  string
	panicStack []string
	curFrame   *frame

	env      *envState
	mapOrder int
	replay   []Input
	replayAt int
	funcs    map[string]int64
}

func (c *pathCtx) newVar(name, kind string, n int) *SVar {
	if n > 64 {
		panic(pathAbort{"unsupported", fmt.Sprintf("domain of %s too large (%d)", name, n)})
	}
	v := &SVar{id: len(c.vars), name: name, n: n, kind: kind}
	c.vars = append(c.vars, v)
	m := ^uint64(0)
	if n < 64 {
		m = (uint64(1) << uint(n)) - 1
	}
	c.masks = append(c.masks, m)
	if c.solver != nil {
		c.solver.send(fmt.Sprintf("(declare-const %s (_ BitVec 8))\n(assert (bvult %s #x%02x))\n", v.smt(), v.smt(), n))
	}
	return v
}

func (c *pathCtx) newTermVar(name string, w int) *Term {
	s := fmt.Sprintf("t%d", c.nterms)
	c.nterms++
	if c.solver != nil {
		c.solver.send(fmt.Sprintf("(declare-const %s (_ BitVec %d))\n", s, w))
	}
	return &Term{s: s, w: w, signed: true}
}

func (c *pathCtx) liveVal(v *SVar, k int) bool {
	return c.masks[v.id]&(uint64(1)<<uint(k)) != 0
}

func (c *pathCtx) liveAsg(vars []*SVar, asg []int) bool {
	for i, v := range vars {
		if c.masks[v.id]&(uint64(1)<<uint(asg[i])) == 0 {
			return false
		}
	}
	return true
}

// restrict narrows the masks after cond==want has been added to the path condition.
func (c *pathCtx) restrict(s *Sym, want bool) {
	nm := make([]uint64, len(s.vars))
	asg := make([]int, len(s.vars))
	for idx, l := range s.leaves {
		if l.(bool) != want {
			continue
		}
		decodeRow(s.vars, idx, asg)
		if !c.liveAsg(s.vars, asg) {
			continue
		}
		for i := range s.vars {
			nm[i] |= uint64(1) << uint(asg[i])
		}
	}
	for i, v := range s.vars {
		c.masks[v.id] &= nm[i]
	}
}

func (c *pathCtx) query(smt string) string {
	t0 := time.Now()
	r := c.solver.check(smt)
	d := time.Since(t0).Nanoseconds()
	c.stats.SolverQueries++
	c.stats.SolverNs += d
	if d > c.stats.SolverMaxNs {
		c.stats.SolverMaxNs = d
	}
	if r != "sat" && r != "unsat" {
		c.stats.Unknown++
		panic(pathAbort{"solver", "solver answered " + r + " for " + truncate(smt, 200)})
	}
	return r
}

// evalModel evaluates a bool table under the cached model of the path condition.
func (c *pathCtx) evalModel(s *Sym) (bool, bool) {
	if !c.modelOK {
		return false, false
	}
	idx := 0
	for _, v := range s.vars {
		val := 0
		if v.id < len(c.model) && c.model[v.id] >= 0 {
			val = c.model[v.id]
		} else {
			// variable younger than the model: unconstrained so far, any live value will do
			val = -1
			for k := 0; k < v.n; k++ {
				if c.liveVal(v, k) {
					val = k
					break
				}
			}
			if val < 0 {
				return false, false
			}
			for len(c.model) <= v.id {
				c.model = append(c.model, -1)
			}
			c.model[v.id] = val
		}
		if !c.liveVal(v, val) {
			return false, false
		}
		idx = idx*v.n + val
	}
	return s.leaves[idx].(bool), true
}

// querySat checks pc ∧ smt and, if satisfiable, returns a model of the selector vars.
func (c *pathCtx) querySat(smt string) (bool, []int) {
	if len(c.vars) == 0 || c.nterms > 0 {
		return c.query(smt) == "sat", nil
	}
	names := make([]string, len(c.vars))
	for i, v := range c.vars {
		names[i] = v.smt()
	}
	t0 := time.Now()
	r, m := c.solver.model(smt, names)
	d := time.Since(t0).Nanoseconds()
	c.stats.SolverQueries++
	c.stats.SolverNs += d
	if d > c.stats.SolverMaxNs {
		c.stats.SolverMaxNs = d
	}
	if r != "sat" && r != "unsat" {
		c.stats.Unknown++
		panic(pathAbort{"solver", "solver answered " + r + " for " + truncate(smt, 200)})
	}
	if r == "unsat" {
		return false, nil
	}
	model := make([]int, len(c.vars))
	for i, v := range c.vars {
		model[i] = int(m[v.smt()])
	}
	return true, model
}

func truncate(s string, n int) string {
	if len(s) > n {
		return s[:n] + "…"
	}
	return s
}

func (c *pathCtx) assertPC(smt string) {
	c.solver.send("(assert " + smt + ")\n")
}

// branch decides a (possibly symbolic) condition, forking the path when
// both outcomes are feasible.
func (fr *frame) branch(cond value) bool {
	c := fr.i.ctx
	var smt string
	var sym *Sym
	switch x := cond.(type) {
	case bool:
		return x
	case *Sym:
		sym = x
		// decide by masks
		asg := make([]int, len(x.vars))
		t, f := 0, 0
		for idx, l := range x.leaves {
			decodeRow(x.vars, idx, asg)
			if !c.liveAsg(x.vars, asg) {
				continue
			}
			if l.(bool) {
				t++
			} else {
				f++
			}
			if t > 0 && f > 0 {
				break
			}
		}
		if f == 0 && t > 0 {
			c.stats.MaskDecided++
			return true
		}
		if t == 0 && f > 0 {
			c.stats.MaskDecided++
			return false
		}
		if t == 0 && f == 0 {
			panic(pathAbort{"infeasible", "branch: no live row"})
		}
		smt = c.symBoolToSMT(x)
	case *Term:
		if x.w != 0 {
			panic(fmt.Sprintf("branch on non-bool term %s", x.s))
		}
		smt = x.s
	default:
		panic(fmt.Sprintf("branch on %T", cond))
	}
	c.stats.SymBranches++
	if c.solver == nil {
		panic(pathAbort{"unsupported", "symbolic branch in concrete mode"})
	}
	var take bool
	if c.pos < len(c.prefix) {
		take = c.prefix[c.pos] == 1
		c.pos++
		if sym != nil {
			if b, ok := c.evalModel(sym); !ok || b != take {
				c.modelOK = false
			}
		} else {
			c.modelOK = false
		}
	} else {
		c.pos++
		witness, known := false, false
		if sym != nil {
			witness, known = c.evalModel(sym)
		}
		if known {
			// the cached model shows that side 'witness' is feasible
			other := "(not " + smt + ")"
			if !witness {
				other = smt
			}
			if ok, _ := c.querySat(other); !ok {
				take = witness
			} else {
				take = witness
				alt := make([]byte, len(c.decisions)+1)
				copy(alt, c.decisions)
				if !witness {
					alt[len(c.decisions)] = 1
				}
				c.stats.Forks++
				c.ex.push(alt)
			}
		} else {
			okT, mT := c.querySat(smt)
			if !okT {
				take = false
				c.modelOK = false
			} else if okF, _ := c.querySat("(not " + smt + ")"); !okF {
				take = true
				if mT != nil {
					c.model, c.modelOK = mT, true
				}
			} else {
				// fork: follow true, queue false
				take = true
				if mT != nil {
					c.model, c.modelOK = mT, true
				}
				alt := make([]byte, len(c.decisions)+1)
				copy(alt, c.decisions)
				alt[len(c.decisions)] = 0
				c.stats.Forks++
				c.ex.push(alt)
			}
		}
	}
	if take {
		c.decisions = append(c.decisions, 1)
		c.assertPC(smt)
	} else {
		c.decisions = append(c.decisions, 0)
		c.assertPC("(not " + smt + ")")
	}
	if sym != nil {
		c.restrict(sym, take)
	}
	return take
}

func decString(d []byte) string {
	var b strings.Builder
	for _, x := range d {
		b.WriteByte('0' + x)
	}
	return b.String()
}

// fillModel obtains a model of pc ∧ extra and fills input values.
func (c *pathCtx) fillModel(extra string) ([]Input, bool) {
	var names []string
	for _, in := range c.inputs {
		if in.Const {
			continue
		}
		if in.v != nil {
			names = append(names, in.v.smt())
		} else if in.term != "" {
			names = append(names, in.term)
		}
	}
	t0 := time.Now()
	r, m := c.solver.model(extra, names)
	c.stats.SolverQueries++
	c.stats.SolverNs += time.Since(t0).Nanoseconds()
	if r != "sat" {
		if r != "unsat" {
			c.stats.Unknown++
			panic(pathAbort{"solver", "solver answered " + r + " in model query"})
		}
		return nil, false
	}
	out := make([]Input, len(c.inputs))
	for i, in := range c.inputs {
		out[i] = in
		if in.Const {
			out[i].Value = in.CValue
			continue
		}
		if in.v != nil {
			k := int(m[in.v.smt()])
			switch in.Kind {
			case "int":
				out[i].Value = in.Lo + k
			case "bool":
				out[i].Value = k == 1
			case "pick":
				out[i].Value = k
			}
		} else {
			out[i].Value = int64(m[in.term])
		}
	}
	return out, true
}

// ---------------------------------------------------------------------------

func (ex *Explorer) push(p []byte) {
	ex.mu.Lock()
	ex.work = append(ex.work, p)
	ex.mu.Unlock()
	ex.cond.Signal()
}

func (ex *Explorer) pop() ([]byte, bool) {
	ex.mu.Lock()
	defer ex.mu.Unlock()
	for {
		if ex.stopped {
			return nil, false
		}
		if n := len(ex.work); n > 0 {
			p := ex.work[n-1]
			ex.work = ex.work[:n-1]
			ex.active++
			return p, true
		}
		if ex.active == 0 {
			ex.cond.Broadcast()
			return nil, false
		}
		ex.cond.Wait()
	}
}

func (ex *Explorer) done() {
	ex.mu.Lock()
	ex.active--
	if ex.active == 0 && len(ex.work) == 0 {
		ex.cond.Broadcast()
	}
	ex.mu.Unlock()
}

// Explore runs the harness entry over all feasible paths.
func Explore(prog *Program, entry string, opt Options) *Result {
	if opt.Workers <= 0 {
		opt.Workers = 1
	}
	if opt.MaxSteps == 0 {
		opt.MaxSteps = 20_000_000
	}
	if opt.MaxPaths == 0 {
		opt.MaxPaths = 200_000
	}
	if opt.SolverTimeout == 0 {
		opt.SolverTimeout = 10000
	}
	if opt.SolverCmd == nil {
		opt.SolverCmd = []string{"z3", "-in"}
	}
	ex := &Explorer{prog: prog, entry: entry, opt: opt, sigSeen: map[string]bool{}}
	ex.cond = sync.NewCond(&ex.mu)
	ex.res.Covers = map[string]int64{}
	ex.res.CoverModel = map[string][]Input{}
	ex.res.Unsupported = map[string]int64{}
	ex.res.FuncsEntered = map[string]int64{}
	ex.res.Assumptions = map[string]bool{}
	ex.work = [][]byte{{}}
	t0 := time.Now()
	var wg sync.WaitGroup
	for w := 0; w < opt.Workers; w++ {
		wg.Add(1)
		go func() {
			defer wg.Done()
			s, err := newSolver(opt.SolverCmd, opt.SolverTimeout)
			if err != nil {
				ex.mu.Lock()
				ex.res.Inconclusive = append(ex.res.Inconclusive, "cannot start solver: "+err.Error())
				ex.stopped = true
				ex.mu.Unlock()
				ex.cond.Broadcast()
				return
			}
			defer s.close()
			for {
				p, ok := ex.pop()
				if !ok {
					return
				}
				ex.runPath(s, p)
				ex.done()
			}
		}()
	}
	wg.Wait()
	ex.res.WallS = time.Since(t0).Seconds()
	if len(ex.work) > 0 && !ex.opt.StopOnFirst {
		ex.res.Inconclusive = append(ex.res.Inconclusive, fmt.Sprintf("%d paths left unexplored", len(ex.work)))
	}
	sort.Slice(ex.res.Violations, func(i, j int) bool { return ex.res.Violations[i].Signature < ex.res.Violations[j].Signature })
	return &ex.res
}

func (ex *Explorer) runPath(s *solver, prefix []byte) {
	c := &pathCtx{ex: ex, prefix: prefix, solver: s, covers: map[string]bool{}, assumes: map[string]bool{},
		mapOrder: ex.opt.MapOrder, funcs: map[string]int64{}, replay: ex.opt.Replay}
	s.reset()
	end := "completed"
	var abortMsg string
	func() {
		defer func() {
			if e := recover(); e != nil {
				switch p := e.(type) {
				case pathAbort:
					end = p.kind
					abortMsg = p.msg
				default:
					end = "panic"
					c.recordPanic(e)
				}
			}
		}()
		ex.prog.runEntry(c, ex.entry)
	}()
	c.stats.Paths = 1
	switch end {
	case "completed", "exit":
		c.stats.Completed = 1
	case "assume":
		c.stats.AssumeEnded = 1
	case "infeasible":
		c.stats.Infeasible = 1
	case "unsupported":
		c.stats.Unsupported = 1
	case "limit", "solver":
		c.stats.LimitHit = 1
	case "panic":
		c.stats.Panicked = 1
	}
	c.stats.Steps = c.steps
	c.stats.Violations = int64(len(c.viol))

	var sample *PathSample
	ex.mu.Lock()
	needSample := len(ex.res.Samples) < ex.opt.Samples && (end == "completed" || end == "panic" || end == "exit" || ex.opt.KeepOutput)
	var needCover []string
	for l := range c.covers {
		if _, ok := ex.res.CoverModel[l]; !ok {
			needCover = append(needCover, l)
			ex.res.CoverModel[l] = nil // reserve
		}
	}
	ex.mu.Unlock()
	var model []Input
	if needSample || len(needCover) > 0 {
		func() {
			defer func() { recover() }()
			model, _ = c.fillModel("true")
		}()
	}
	if needSample {
		sample = &PathSample{Decisions: decString(c.decisions), End: end, Inputs: model, Notes: c.notes}
		if ex.opt.KeepOutput && c.env != nil {
			sample.Stdout = chunksString(c.env.stdout)
			sample.Stderr = chunksString(c.env.stderr)
		}
		if end == "panic" && len(c.viol) > 0 {
			sample.Panic = c.viol[len(c.viol)-1].Message
		}
		for l := range c.covers {
			sample.Covers = append(sample.Covers, l)
		}
		sort.Strings(sample.Covers)
	}

	ex.mu.Lock()
	ex.res.Stats.add(&c.stats)
	for l := range c.covers {
		ex.res.Covers[l]++
	}
	for _, l := range needCover {
		ex.res.CoverModel[l] = model
	}
	for a := range c.assumes {
		ex.res.Assumptions[a] = true
	}
	for f, n := range c.funcs {
		ex.res.FuncsEntered[f] += n
	}
	if sample != nil {
		ex.res.Samples = append(ex.res.Samples, *sample)
	}
	switch end {
	case "unsupported":
		ex.res.Unsupported[abortMsg]++
	case "limit", "solver":
		ex.res.Inconclusive = append(ex.res.Inconclusive, end+": "+abortMsg+" ["+decString(c.decisions)+"]")
	}
	for _, v := range c.viol {
		if !ex.sigSeen[v.Signature] {
			ex.sigSeen[v.Signature] = true
			ex.res.Violations = append(ex.res.Violations, v)
			if ex.opt.StopOnFirst {
				ex.stopped = true
			}
		}
	}
	if ex.res.Stats.Paths >= ex.opt.MaxPaths && !ex.stopped {
		ex.stopped = true
		ex.res.Inconclusive = append(ex.res.Inconclusive, fmt.Sprintf("path budget %d exhausted", ex.opt.MaxPaths))
	}
	stopped := ex.stopped
	ex.mu.Unlock()
	if stopped {
		ex.cond.Broadcast()
	}
	if ex.opt.Verbose {
		fmt.Printf("path %s end=%s %s steps=%d\n", decString(c.decisions), end, abortMsg, c.steps)
	}
}

var digitsRe = regexp.MustCompile(`-?\d+`)

func (c *pathCtx) recordPanic(e interface{}) {
	msg := panicMessage(e)
	site := c.panicSite
	if site == "" && c.curFrame != nil {
		site = c.curFrame.fn.String()
	}
	kind := "panic"
	if strings.Contains(msg, "interp.") || strings.Contains(msg, "unexpected instruction") {
		// almost certainly an engine fault, not a target fault
		c.stats.Unsupported++
		c.ex.mu.Lock()
		c.ex.res.Unsupported["engine fault: "+msg+" in "+site]++
		c.ex.mu.Unlock()
		return
	}
	v := Violation{Kind: kind, Label: "no-crash", Message: msg, Site: site, Stack: c.panicStack,
		Decisions: decString(c.decisions), Class: "C20"}
	short := msg
	if i := strings.IndexAny(short, "[\"'"); i > 0 {
		short = short[:i]
	}
	if strings.HasSuffix(site, "@ Panic") && !strings.HasPrefix(msg, "panic: runtime error") {
		// explicit panic(err) of the code under test: the text depends on the input
		short = "explicit panic"
	}
	v.Signature = "panic|" + site + "|" + digitsRe.ReplaceAllString(short, "N")
	func() {
		defer func() { recover() }()
		v.Inputs, _ = c.fillModel("true")
	}()
	c.viol = append(c.viol, v)
}

func panicMessage(e interface{}) string {
	switch p := e.(type) {
	case targetPanic:
		return "panic: " + p.String()
	case error:
		return "runtime error: " + strings.TrimPrefix(p.Error(), "runtime error: ")
	case string:
		return p
	}
	return fmt.Sprintf("%v", e)
}

func chunksString(l []value) string {
	var b strings.Builder
	for _, c := range l {
		if s, ok := c.(string); ok {
			b.WriteString(s)
		} else {
			b.WriteString(toString(c))
		}
	}
	return b.String()
}
