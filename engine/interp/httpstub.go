package interp

// Stubs for net/http, net/url and cookiejar: requests are forwarded to the
// harness-side hook "http.do"(method, url, body string) which returns
// (status int, body string, header string "k: v", transportError string).
// A transport error is rendered like net/http does: *url.Error, text
// `Get "<url>": <reason>` (it embeds the request URL).

import (
	"fmt"
	"go/types"
	"net/http"
	"net/url"
	"reflect"
	"sort"
	"strings"
)

func (fr *frame) structOf(t types.Type, fields map[string]value) structure {
	st := zero(t).(structure)
	u := t.Underlying().(*types.Struct)
	for k := 0; k < u.NumFields(); k++ {
		if v, ok := fields[u.Field(k).Name()]; ok {
			st[k] = v
		}
	}
	return st
}

func fieldByName(st structure, t types.Type, name string) *value {
	u := t.Underlying().(*types.Struct)
	for k := 0; k < u.NumFields(); k++ {
		if u.Field(k).Name() == name {
			return &st[k]
		}
	}
	return nil
}

func titleOp(m string) string {
	if m == "" {
		return "Get"
	}
	return strings.ToUpper(m[:1]) + strings.ToLower(m[1:])
}

func (fr *frame) httpDo(method string, uri value, body value) value {
	e := fr.i.ctx.env
	e.events = append(e.events, sinkEvent{Kind: "http", Path: method, Data: uri})
	h, ok := e.hooks["http.do"]
	if !ok {
		panic(pathAbort{"unsupported", "no http.do hook"})
	}
	if body == nil {
		body = ""
	}
	r := call(fr.i, fr, 0, h, []value{method, uri, body}).(tuple)
	status, rbody, hdr, terr := r[0], r[1], r[2], r[3]
	respT := fr.i.p.namedType("net/http", "Response")
	// "BODY:<reason>": status line and headers arrive, the body is cut off
	var bodyErr value
	if ts, ok := terr.(string); ok && strings.HasPrefix(ts, "BODY:") {
		bodyErr = fr.mkErr(strings.TrimPrefix(ts, "BODY:"))
		terr = ""
	}
	noErr := fr.lift([]value{terr}, func(a []value) value { return a[0].(string) == "" })
	if !fr.branch(noErr) {
		// *url.Error: Op "url": Err
		msg := fr.lift([]value{uri, terr}, func(a []value) value {
			return fmt.Sprintf("%s %q: %s", titleOp(method), a[0].(string), a[1].(string))
		})
		return tuple{(*value)(nil), fr.mkErr(msg)}
	}
	headerT := fr.i.p.namedType("net/http", "Header")
	hm := makeMap(types.Typ[types.String], 0).(*omap)
	if hs, ok := hdr.(string); ok && hs != "" {
		for _, line := range strings.Split(hs, "\n") {
			if k, v, ok := strings.Cut(line, ": "); ok {
				hm.insert(fr, http.CanonicalHeaderKey(k), []value{v})
			}
		}
	}
	_ = headerT
	statusText := fr.lift([]value{status}, func(a []value) value {
		return fmt.Sprintf("%d %s", a[0].(int), http.StatusText(a[0].(int)))
	})
	var cell value = fr.structOf(respT, map[string]value{
		"StatusCode": status,
		"Status":     statusText,
		"Header":     hm,
		"Body":       iface{t: nativeReaderType, v: native{&vreader{data: fr.stringToBytes(rbody), err: bodyErr}}},
	})
	return tuple{&cell, iface{}}
}

// a stand-in dynamic type for native readers (method calls are dispatched by name)
var nativeReaderType = types.NewNamed(types.NewTypeName(0, nil, "nativeReader", nil), types.NewStruct(nil, nil), nil)

func (fr *frame) omapStrings(m *omap, key string) []value {
	if m == nil {
		return nil
	}
	v, ok := m.lookup(fr, key)
	if !ok {
		return nil
	}
	l, _ := v.([]value)
	return l
}

func (fr *frame) urlFromStruct(p *value) *url.URL {
	t := fr.i.p.namedType("net/url", "URL")
	rt := fr.i.reflectType(t, map[types.Type]reflect.Type{})
	rv := fr.i.toReflect(*p, t, rt)
	u := &url.URL{}
	for _, n := range []string{"Scheme", "Opaque", "Host", "Path", "RawPath", "RawQuery", "Fragment", "RawFragment"} {
		reflect.ValueOf(u).Elem().FieldByName(n).SetString(rv.FieldByName(n).String())
	}
	return u
}

func init() {
	intrinsics["net/http/cookiejar.New"] = func(fr *frame, args []value) value {
		return tuple{native{"cookiejar"}, iface{}}
	}
	intrinsics["(*net/http.Client).Get"] = func(fr *frame, args []value) value {
		return fr.httpDo("GET", args[1], nil)
	}
	intrinsics["(*net/http.Client).PostForm"] = func(fr *frame, args []value) value {
		enc := intrinsics["(net/url.Values).Encode"](fr, []value{args[2]})
		return fr.httpDo("POST", args[1], enc)
	}
	intrinsics["net/http.NewRequest"] = func(fr *frame, args []value) value {
		reqT := fr.i.p.namedType("net/http", "Request")
		hm := makeMap(types.Typ[types.String], 0).(*omap)
		var body value = ""
		if it, ok := args[2].(iface); ok && it.t != nil {
			if n, ok := it.v.(native); ok {
				if r, ok := n.v.(*vreader); ok {
					if blobOf(r.data) != nil {
						body = r.data
					} else {
						body = fr.lift([]value{r.data}, func(a []value) value { return string(bytesOf(a[0])) })
					}
				}
			}
		}
		var cell value = fr.structOf(reqT, map[string]value{
			"Method":     args[0],
			"RequestURI": args[1],
			"Header":     hm,
			"Body":       iface{t: nativeReaderType, v: native{&vreader{data: body}}},
		})
		return tuple{&cell, iface{}}
	}
	intrinsics["(*net/http.Client).Do"] = func(fr *frame, args []value) value {
		reqT := fr.i.p.namedType("net/http", "Request")
		st := (*fr.ptr(args[1])).(structure)
		method := fr.concreteString(*fieldByName(st, reqT, "Method"))
		uri := *fieldByName(st, reqT, "RequestURI")
		var body value = ""
		if it, ok := (*fieldByName(st, reqT, "Body")).(iface); ok && it.t != nil {
			body = it.v.(native).v.(*vreader).data
		}
		return fr.httpDo(method, uri, body)
	}
	intrinsics["bytes.NewReader"] = func(fr *frame, args []value) value {
		return native{&vreader{data: args[0]}}
	}
	intrinsics["(net/http.Header).Get"] = func(fr *frame, args []value) value {
		m, _ := args[0].(*omap)
		l := fr.omapStrings(m, http.CanonicalHeaderKey(fr.concreteString(args[1])))
		if len(l) == 0 {
			return ""
		}
		return l[0]
	}
	intrinsics["(net/http.Header).Set"] = func(fr *frame, args []value) value {
		m := args[0].(*omap)
		m.insert(fr, http.CanonicalHeaderKey(fr.concreteString(args[1])), []value{args[2]})
		return nil
	}
	intrinsics["(net/url.Values).Set"] = func(fr *frame, args []value) value {
		m := args[0].(*omap)
		m.insert(fr, fr.concreteString(args[1]), []value{args[2]})
		return nil
	}
	intrinsics["(net/url.Values).Get"] = func(fr *frame, args []value) value {
		m, _ := args[0].(*omap)
		l := fr.omapStrings(m, fr.concreteString(args[1]))
		if len(l) == 0 {
			return ""
		}
		return l[0]
	}
	intrinsics["(net/url.Values).Encode"] = func(fr *frame, args []value) value {
		m, _ := args[0].(*omap)
		if m == nil {
			return ""
		}
		type kv struct {
			k string
			v []value
		}
		var l []kv
		for i, k := range m.keys {
			l = append(l, kv{fr.concreteString(k), m.vals[i].([]value)})
		}
		sort.Slice(l, func(i, j int) bool { return l[i].k < l[j].k })
		var acc value = ""
		for _, e := range l {
			for _, v := range e.v {
				k := e.k
				part := fr.lift([]value{v}, func(a []value) value {
					return url.QueryEscape(k) + "=" + url.QueryEscape(a[0].(string))
				})
				sep := fr.lift([]value{acc}, func(a []value) value {
					if a[0].(string) == "" {
						return ""
					}
					return "&"
				})
				acc = fr.appendStr(fr.appendStr(acc, sep), part)
			}
		}
		return acc
	}
	intrinsics["net/url.Parse"] = func(fr *frame, args []value) value {
		u, err := url.Parse(fr.concreteString(args[0]))
		if err != nil {
			return tuple{(*value)(nil), fr.errVal(err)}
		}
		t := fr.i.p.namedType("net/url", "URL")
		var cell value = fr.structOf(t, map[string]value{
			"Scheme": u.Scheme, "Opaque": u.Opaque, "Host": u.Host, "Path": u.Path,
			"RawPath": u.RawPath, "RawQuery": u.RawQuery, "Fragment": u.Fragment,
		})
		return tuple{&cell, iface{}}
	}
	intrinsics["(*net/url.URL).String"] = func(fr *frame, args []value) value {
		p := fr.ptr(args[0])
		t := fr.i.p.namedType("net/url", "URL")
		st := (*p).(structure)
		get := func(n string) value { return *fieldByName(st, t, n) }
		return fr.lift([]value{get("Scheme"), get("Host"), get("Path"), get("RawQuery")}, func(a []value) value {
			u := url.URL{Scheme: a[0].(string), Host: a[1].(string), Path: a[2].(string), RawQuery: a[3].(string)}
			return u.String()
		})
	}
}
